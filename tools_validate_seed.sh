#!/bin/sh
# usage: tools_validate_seed.sh <outdir e.g. /tmp/out_C03/1> <name e.g. C03-1>
# confirms: patch applies to /repo HEAD, builds, 60 tests pass, demo fails with / passes without
out=$1; name=$2
wt=/tmp/val_$name
rm -rf $wt; git -C /repo worktree add -q --detach $wt HEAD || exit 9
cd $wt
res="name=$name"
make -s >/dev/null 2>&1 || res="$res cleanbuild=FAIL"
if [ -f $out/demo.sh ]; then timeout 120 sh $out/demo.sh $wt >/tmp/val_$name.clean.log 2>&1; res="$res demo_clean_rc=$?"; fi
make -s clean >/dev/null 2>&1
if git apply $out/patch.diff 2>/dev/null; then res="$res apply=ok"; else res="$res apply=FAIL"; fi
if make -s >/tmp/val_$name.build.log 2>&1; then res="$res build=ok"; else res="$res build=FAIL"; fi
n=$(EXINIT= sh test.sh 2>&1 | grep -c OK); res="$res tests_ok=$n"
if [ -f $out/demo.sh ]; then timeout 120 sh $out/demo.sh $wt >/tmp/val_$name.mut.log 2>&1; res="$res demo_mut_rc=$?"; fi
cd /; git -C /repo worktree remove --force $wt
echo "$res"
