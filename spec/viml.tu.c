/* proof unit for vi_motionln of /repo/vi.c (line motions + - _ j k G H M L ' and the doubled operator key).
 * MECHANICAL EXTRACTION (redone on every run by run.py, unit key "extract"): vi.c's preprocessor
 * lines, the declaration line of vi_arg1/vi_arg2 and the verbatim text of vi_motionln; everything
 * else of vi.c is dropped.  Callees are declared here and stubbed in viml.spec.h. */
#include "pre.h"
static int vi_read(void);
static void vi_back(int c);
#include EXTRACT_FILE
#include "libc.spec.h"
#include "viml.spec.h"
