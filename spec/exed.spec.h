/* ec_edit: ":e [+cmd] [file]" (C02: refuses while dirty; C20: an open buffer is switched to, never re-read; C01: a new buffer is filled from the file) */
static int verif_snprintf(char *s, unsigned long n) { if (n) s[0] = 0; return 0; }
int xrow, xoff, xtop, xwa;
struct ghost_ed_in { int dirty, expand_ok, found, found1, open_idx, open_ok, rd_fail, len, has_plus, cmd_ret; long mt; } EDI;	/* constants */
struct ghost_ed {
	int mod_calls, switch_calls, switch_idx[3], open_calls, rd_calls, rd_beg, rd_end, rd_fd, saved_calls, saved_clear, close_calls, cmd_calls, show_calls;
	int t, t_switch_last, t_rd, t_saved;
	int bad;
} ED;
static struct lbuf { int d; } g_edlb[2];
static char g_edpath[2], g_edcur[2];
static int bufs_modified(int idx, char *msg) { ED.mod_calls++; if (idx != 0) ED.bad = 1; return EDI.dirty; }
static char *ex_plus(char *src, char *dst)
{
	dst[0] = EDI.has_plus ? '+' : 0;
	dst[1] = 0;
	return src;
}
static char *ex_pathexpand(char *src, int spaceallowed) { return EDI.expand_ok ? g_edpath : (char *) 0; }
static int bufs_find(char *path) { if (path != g_edpath) ED.bad = 1; return EDI.found; }
static int bufs_open(char *path) { ED.open_calls++; if (path != g_edpath) ED.bad = 1; return EDI.open_idx; }
static void bufs_switch(int idx)
{
	ED.t++;
	if (ED.switch_calls < 3)
		ED.switch_idx[ED.switch_calls] = idx;
	ED.switch_calls++;
	ED.t_switch_last = ED.t;
	/* the table rotation itself is unit ex.bufs_switch; here: the reached buffer becomes current */
	bufs[0].lb = &g_edlb[1];
	bufs[0].path = g_edcur;
}
static int verif_open(const char *path, int flags)
{
	if (path != bufs[0].path)
		ED.bad = 1;
	return EDI.open_ok ? 5 : -1;
}
int lbuf_rd(struct lbuf *lb, int fd, int beg, int end)
{
	ED.t++;
	ED.rd_calls++; ED.rd_beg = beg; ED.rd_end = end; ED.rd_fd = fd; ED.t_rd = ED.t;
	if (lb != bufs[0].lb)
		ED.bad = 1;
	return EDI.rd_fail;
}
int lbuf_len(struct lbuf *lb) { return EDI.len; }
void lbuf_saved(struct lbuf *lb, int clear)
{
	ED.t++;
	ED.saved_calls++; ED.saved_clear = clear; ED.t_saved = ED.t;
	if (lb != bufs[0].lb)
		ED.bad = 1;
}
int close(int fd) { ED.close_calls++; return 0; }
void ex_show(char *msg) { ED.show_calls++; }
static long mtime(char *path) { return EDI.mt; }
int ex_command(char *ln) { ED.cmd_calls++; return EDI.cmd_ret; }

void h_ec_edit(void)
{
	char loc[2], cmd[19], arg[2];
	int k;
	GHOST_INIT();
	for (k = 0; k < 18; k++)
		cmd[k] = nondet_char();
	cmd[18] = 0;
	loc[0] = 0; arg[0] = nondet_char(); arg[1] = 0;
	EDI.dirty = nondet_bool(); EDI.expand_ok = nondet_bool(); EDI.found = nondet_int(); EDI.open_idx = nondet_int(); EDI.open_ok = nondet_bool();
	EDI.rd_fail = nondet_bool(); EDI.len = nondet_int(); EDI.has_plus = nondet_bool(); EDI.cmd_ret = nondet_int(); EDI.mt = nondet_long();
	__CPROVER_assume(-1 <= EDI.found && EDI.found < 16 && 0 <= EDI.open_idx && EDI.open_idx < 16 && 0 <= EDI.len && EDI.len <= 0x1000000);
	g_edpath[0] = nondet_char(); g_edpath[1] = 0;
	g_edcur[0] = nondet_char(); g_edcur[1] = 0;
	int has_cur = nondet_bool(), cur_named = nondet_bool();
	bufs[0].lb = has_cur ? &g_edlb[0] : (struct lbuf *) 0;
	bufs[0].path = has_cur && cur_named ? g_edcur : (char *) 0;
	xwa = nondet_bool(); xrow = nondet_int(); xoff = nondet_int(); xtop = nondet_int();
	__CPROVER_assume(0 <= xrow && xrow <= 0x1000000 && 0 <= xtop && xtop <= 0x1000000);
	ED.mod_calls = ED.switch_calls = ED.open_calls = ED.rd_calls = ED.saved_calls = ED.close_calls = ED.cmd_calls = ED.show_calls = ED.bad = 0;
	ED.t = ED.t_switch_last = ED.t_rd = ED.t_saved = 0;
	int bang = 0;
	for (k = 0; k < 18; k++) {
		if (!cmd[k])
			break;
		if (cmd[k] == '!')
			bang = 1;
	}
	struct lbuf *lb0 = bufs[0].lb;
	int ret = ec_edit(loc, cmd, arg, 0);
	H_ASSERT(!ED.bad, "ec_edit: the named path is looked up / opened, the current buffer is the one read into and marked");
	if (!bang && has_cur && !xwa && EDI.dirty) {
		H_ASSERT(ret == 1 && ED.switch_calls == 0 && ED.open_calls == 0 && ED.rd_calls == 0 && ED.saved_calls == 0, "ec_edit: without '!' a modified buffer is not left: the command fails and nothing is touched");
		return;
	}
	if (!EDI.expand_ok) {
		H_ASSERT(ret == 1 && ED.switch_calls == 0 && ED.rd_calls == 0 && ED.saved_calls == 0, "ec_edit: a path that does not expand fails the command, nothing touched");
		return;
	}
	if (g_edpath[0] && EDI.found >= 0) {
		/* the file is already in a buffer: go there; its text, history and dirty state are its own - nothing is read or marked saved */
		H_ASSERT(ED.switch_calls >= 1 && ED.switch_idx[ED.switch_calls - 1 < 3 ? ED.switch_calls - 1 : 2] == EDI.found && ED.open_calls == 0 && ED.rd_calls == 0 && ED.saved_calls == 0,
			"ec_edit: a file that is already open is switched to, not opened again, not re-read, not marked saved");
		H_ASSERT(ret == (EDI.has_plus ? EDI.cmd_ret : 0) && ED.cmd_calls == (EDI.has_plus ? 1 : 0), "ec_edit: the +command runs after the switch");
		return;
	}
	int fresh = g_edpath[0] || !(has_cur && cur_named);
	H_ASSERT(ED.open_calls == (fresh ? 1 : 0) && (!fresh || (ED.switch_calls >= 1 && ED.switch_idx[ED.switch_calls - 1 < 3 ? ED.switch_calls - 1 : 2] == EDI.open_idx)),
		"ec_edit: a new file gets a buffer of its own which becomes current; ':e' without a name re-reads the current file in place");
	if (EDI.open_ok) {
		H_ASSERT(ED.rd_calls == 1 && ED.rd_beg == 0 && ED.rd_end == EDI.len && ED.rd_fd == 5 && ED.close_calls == 1 && ED.t_rd > ED.t_switch_last,
			"ec_edit: the file replaces the whole text of the (new current) buffer; the file is closed");
	} else
		H_ASSERT(ED.rd_calls == 0, "ec_edit: a file that cannot be opened gives an empty buffer, nothing is read");
	H_ASSERT(ED.saved_calls == 1 && ED.saved_clear == (g_edpath[0] != 0) && ED.t_saved > ED.t_rd, "ec_edit: after reading the buffer counts as saved (history cleared for a named file)");
	H_ASSERT(bufs[0].mtime == EDI.mt, "ec_edit: the file's modification time is recorded for the buffer");
	H_ASSERT(0 <= xrow && (EDI.len == 0 ? xrow == 0 : xrow < EDI.len) && xoff == 0, "ec_edit: the cursor is on an existing line");
	H_ASSERT(ret == (EDI.has_plus ? EDI.cmd_ret : 0) && ED.cmd_calls == (EDI.has_plus ? 1 : 0), "ec_edit: the +command runs last");
#ifdef CANARY
	__CPROVER_assert(0, "canary");
#endif
}
