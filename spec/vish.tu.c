/* proof unit for vi_shift of /repo/vi.c (> <).
 * MECHANICAL EXTRACTION (redone on every run by run.py, unit key "extract"): vi.c's preprocessor
 * lines and the verbatim text of vi_shift; everything else of vi.c is dropped. */
#include "pre.h"
static void vi_drawfix(int r1, int r2, int n, int preview);
#include EXTRACT_FILE
#include "libc.spec.h"
#include "vish.spec.h"
