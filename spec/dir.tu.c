/* proof units for /repo/dir.c - the real file, included verbatim */
#include "pre.h"
#include "dir.c"
#include "libc.spec.h"
#include "dir.spec.h"
