/* proof unit for lbuf_indents of /repo/mot.c - the real file, included verbatim */
#include "pre.h"
#include "mot.c"
#include "libc.spec.h"
#include "motin.spec.h"
