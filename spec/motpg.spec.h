/* lbuf_paragraphbeg: { and } - over the blank lines at the cursor, then over the paragraph, to the
 * blank line that bounds it (C07).  strcmp("\n", line) is routed (by #define in the TU) to a stub
 * that answers "is this line empty" - any answer, consistently per line - and records the scan. */
int xic;
struct rstr;
struct rstr *rstr_make(char *re, int flg) { return 0; }
void rstr_free(struct rstr *rs) { }
int rstr_find(struct rstr *rs, char *s, int n, int *grps, int flg) { return -1; }
int uc_off(char *s, int off) { return nondet_int(); }
char *uc_next(char *s) { return s; }
char *uc_prev(char *beg, char *s) { return s; }
int uc_slen(char *s) { return nondet_int(); }
int uc_kind(char *s) { return nondet_int(); }
int uc_code(char *s) { return nondet_int(); }
int uc_isspace(char *s) { return nondet_int(); }
char *uc_chr(char *s, int off) { return s; }

struct ghost_pg_in { int n, r0, dir; } PI_;	/* constants */
struct ghost_pg {
	int cur;		/* the row lbuf_get was last asked for */
	int c_row, c_empty;	/* the row examined last and the answer given */
	int e, ne;		/* blank lines from the cursor on, then non-blank lines after them, examined so far */
	int stop;		/* the blank line that ends the paragraph was examined */
	int bad;
} PG;
static char g_pgline[2];
int lbuf_len(struct lbuf *lb) { return PI_.n; }
char *lbuf_get(struct lbuf *lb, int pos)
{
	if (pos < 0 || pos >= PI_.n)
		return 0;
	PG.cur = pos;
	return g_pgline;
}
static int verif_strcmp(const char *a, const char *b)
{
	__CPROVER_assert(b == g_pgline, "lbuf_paragraphbeg: a line of the buffer is compared with the empty line");
	if (PG.c_row != PG.cur) {
		PG.c_row = PG.cur;
		PG.c_empty = nondet_bool();
		if (PG.ne == 0 && !PG.stop && PG.cur == PI_.r0 + PI_.dir * PG.e) {
			if (PG.c_empty)
				PG.e++;
			else
				PG.ne = 1;
		} else if (PG.ne >= 1 && !PG.stop && PG.cur == PI_.r0 + PI_.dir * (PG.e + PG.ne)) {
			if (PG.c_empty)
				PG.stop = 1;
			else
				PG.ne++;
		} else
			PG.bad = 1;	/* a line off the scan path */
	}
	return PG.c_empty ? 0 : 1;
}
int lbuf_paragraphbeg_frame_contract(struct lbuf *lb, int dir, int *row, int *off)
__CPROVER_requires(row != 0 && off != 0)
__CPROVER_assigns(*row, *off, PG)
;
#pragma CPROVER check push
#pragma CPROVER check disable "signed-overflow"
int inv_pg0(int row)
{
	return !PG.bad && !PG.stop && PG.ne == 0 && 0 <= PG.e && PG.e <= PI_.n && row == PI_.r0 + PI_.dir * PG.e &&
		(PG.e == 0 ? PG.c_row == -1 : PG.c_row == row - PI_.dir);
}
int inv_pg1(int row)
{
	if (PG.bad || PG.stop || PG.e < 0 || PG.e > PI_.n || PG.ne < 0 || PG.ne > PI_.n)
		return 0;
	/* either the line at `row` was just found non-blank (first round only), or `row` is the next line to examine */
	if (PG.ne >= 1 && PG.c_row == row && !PG.c_empty && row == PI_.r0 + PI_.dir * (PG.e + PG.ne - 1))
		return 1;
	return PG.c_row == row - PI_.dir && row == PI_.r0 + PI_.dir * (PG.e + PG.ne) && (PG.ne >= 1 || row < 0 || row >= PI_.n);
}
int dec_pg1(int row)
{
	return 2 * (PI_.n - PG.ne) + (PG.c_row == row ? 1 : 0);
}
#pragma CPROVER check pop
void h_lbuf_paragraphbeg(void)
{
	int row = nondet_int(), off = nondet_int();
	GHOST_INIT();
	PI_.n = nondet_int(); PI_.dir = nondet_bool() ? 1 : -1;
	__CPROVER_assume(1 <= PI_.n && PI_.n <= 0x1000000 && 0 <= row && row < PI_.n);
	PI_.r0 = row;
	PG.cur = -1; PG.c_row = -1; PG.c_empty = 0; PG.e = 0; PG.ne = 0; PG.stop = 0; PG.bad = 0;
	int ret = lbuf_paragraphbeg((struct lbuf *) 0, PI_.dir, &row, &off);
	H_ASSERT(ret == 0 && off == 0, "lbuf_paragraphbeg: the motion always succeeds and goes to the start of a line");
	H_ASSERT(!PG.bad, "lbuf_paragraphbeg: lines are examined one after the other from the cursor line, none skipped");
	int target = PI_.r0 + PI_.dir * (PG.e + PG.ne);
	if (PG.stop)
		H_ASSERT(row == target && 0 <= row && row < PI_.n, "lbuf_paragraphbeg: the cursor lands on the blank line that bounds the paragraph");
	else
		H_ASSERT(row == (PI_.dir > 0 ? PI_.n - 1 : 0) && (target < 0 || target >= PI_.n), "lbuf_paragraphbeg: without a bounding blank line the cursor goes to the last / first line of the buffer");
#ifdef CANARY
	__CPROVER_assert(0, "canary");
#endif
}
