/* proof unit relating /repo/rset.c's group counter to /repo/regex.c's parser - both real files, included verbatim */
#include "pre.h"
#include "regex.c"
#undef MAX
#undef MIN
#undef LEN
#include "rset.c"
#define NO_STUB_MEMCPY
#define NO_STUB_MEMMOVE
#define NO_STUB_STRLEN
#define NO_STUB_STRCHR
#include "libc.spec.h"
/* string buffer: not reached by this unit */
struct sbuf *sbuf_make(void) { return 0; }
void sbuf_chr(struct sbuf *sb, int c) { }
void sbuf_str(struct sbuf *sb, char *s) { }
void sbuf_mem(struct sbuf *sb, char *s, int len) { }
char *sbuf_buf(struct sbuf *sb) { return 0; }
char *sbuf_done(struct sbuf *sb) { return 0; }
void sbuf_free(struct sbuf *sb) { }

/* BOUNDED: for every pattern of at most GC_MAX bytes over the alphabet ( ) [ ] \ ^ a : that the
 * parser consumes completely, re_groupcount() - which rset_make uses to number the groups of a
 * pattern set - equals the number of groups the parser creates (rnode_grpnum) */
#ifndef GC_MAX
#define GC_MAX 4
#endif
void h_groupcount_bounded(void)
{
	char p[GC_MAX + 1];
	int i, L = nondet_int();
	__CPROVER_assume(1 <= L && L <= GC_MAX);
	for (i = 0; i < GC_MAX; i++) {
		p[i] = nondet_char();
		__CPROVER_assume(p[i] == '(' || p[i] == ')' || p[i] == '[' || p[i] == ']' || p[i] == '\\' || p[i] == '^' || p[i] == 'a' || p[i] == ':');
	}
	p[L] = 0;
	char *pp = p;
	struct rnode *n = rnode_parse(&pp);
	if (n && *pp == 0) {
		int groups = rnode_grpnum(n, 1);
		H_ASSERT(re_groupcount(p) == groups, "re_groupcount: the group count used to number a pattern set equals the number of groups the parser creates");
	}
#ifdef CANARY
	__CPROVER_assert(0, "canary");
#endif
}
