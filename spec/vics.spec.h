/* vi_case: the letters of the region change case, everything else of the region and everything outside it stays (C08) */
int xrow, xoff;
static struct lbuf { int d; } g_cslb;
struct lbuf *ex_lbuf(void) { return &g_cslb; }
#define CS_MAX 4
struct ghost_cs_in { int r1, o1, r2, o2, ln; } CSI;
struct ghost_cs { int region_calls, ro1, ro2, rr1, rr2; int step; int edit_calls, edit_beg, edit_end; char *edit_text; int sub_calls, pre_end, post_beg, bad; } CS;
static char g_region[CS_MAX + 1], g_csline1[2], g_csline2[2], g_cspre[2], g_cspost[2], g_csdup[2], g_cstext[2];
static char *lbuf_region(struct lbuf *lb, int r1, int o1, int r2, int o2)
{
	CS.region_calls++; CS.rr1 = r1; CS.ro1 = o1; CS.rr2 = r2; CS.ro2 = o2;
	return g_region;
}
char *lbuf_get(struct lbuf *lb, int pos) { return pos == CSI.r1 ? g_csline1 : g_csline2; }
/* uc_next (uc units): one well-formed character further */
char *uc_next(char *s)
{
	unsigned char c = (unsigned char) s[0];
	return s + (c < 0x80 ? 1 : (c & 0xe0) == 0xc0 ? 2 : (c & 0xf0) == 0xe0 ? 3 : 4);
}
char *uc_sub(char *s, int beg, int end)
{
	CS.sub_calls++;
	if (beg == 0 && end >= 0 && s == g_csline1) {
		CS.pre_end = end;
		return g_cspre;
	}
	if (end < 0 && s == (CSI.r1 == CSI.r2 ? g_csline1 : g_csline2)) {
		CS.post_beg = beg;
		return g_cspost;
	}
	CS.bad = 1;
	return g_cspost;
}
char *uc_dup(char *s) { return g_csdup; }
static struct sbuf { int d; } g_cssb;
struct sbuf *sbuf_make(void) { return &g_cssb; }
void sbuf_free(struct sbuf *sb) { }
char *sbuf_buf(struct sbuf *sb) { return g_cstext; }
void sbuf_str(struct sbuf *sb, char *s)
{
	if (s == g_cspre && CS.step == 0)
		CS.step = 1;
	else if (s == g_region && CS.step == 1)
		CS.step = 2;
	else if (s == g_cspost && CS.step == 2)
		CS.step = 3;
	else
		CS.bad = 1;
}
void lbuf_edit(struct lbuf *lb, char *s, int beg, int end) { CS.edit_calls++; CS.edit_text = s; CS.edit_beg = beg; CS.edit_end = end; }
int lbuf_indents(struct lbuf *lb, int r) { return 0; }
void free(void *p) { }
static void vi_drawfix(int r1, int r2, int n, int preview) { }
void h_vi_case(void)
{
	char orig[CS_MAX + 1];
	int i, L = nondet_int(), need = 0, cmd = nondet_int();
	GHOST_INIT();
	__CPROVER_assume(cmd == 'u' || cmd == 'U' || cmd == '~');
	__CPROVER_assume(0 <= L && L <= CS_MAX);
	/* the region's text: well-formed ASCII / two-byte characters */
	for (i = 0; i < CS_MAX; i++) {
		g_region[i] = nondet_char();
		if (i < L) {
			unsigned char c = (unsigned char) g_region[i];
			__CPROVER_assume(c != 0);
			if (need) {
				__CPROVER_assume((c & 0xc0) == 0x80);
				need--;
			} else {
				__CPROVER_assume(c < 0x80 || (c & 0xe0) == 0xc0);
				need = c < 0x80 ? 0 : 1;
			}
		}
		orig[i] = g_region[i];
	}
	__CPROVER_assume(need == 0);
	g_region[L] = 0;
	CSI.r1 = nondet_int(); CSI.r2 = nondet_int(); CSI.o1 = nondet_int(); CSI.o2 = nondet_int(); CSI.ln = nondet_bool();
	__CPROVER_assume(0 <= CSI.r1 && CSI.r1 <= CSI.r2 && CSI.r2 <= 0x100000 && 0 <= CSI.o1 && CSI.o1 <= 0x100000 && 0 <= CSI.o2 && CSI.o2 <= 0x100000);
	CS.region_calls = CS.step = CS.edit_calls = CS.sub_calls = CS.bad = 0; CS.pre_end = CS.post_beg = -7;
	vi_case(CSI.r1, CSI.o1, CSI.r2, CSI.o2, CSI.ln, cmd);
	H_ASSERT(!CS.bad && CS.region_calls == 1 && CS.rr1 == CSI.r1 && CS.rr2 == CSI.r2 && CS.ro1 == (CSI.ln ? 0 : CSI.o1) && CS.ro2 == (CSI.ln ? -1 : CSI.o2), "vi_case: exactly the text of the region is converted (whole lines when line-wise)");
	i = nondet_int();
	__CPROVER_assume(0 <= i && i < CS_MAX);
	if (i < L) {
		unsigned char c = (unsigned char) orig[i];
		int lower = c >= 'a' && c <= 'z', upper = c >= 'A' && c <= 'Z';
		char want = (cmd == 'u' && upper) || (cmd == '~' && upper) ? c + ('a' - 'A') : (cmd == 'U' && lower) || (cmd == '~' && lower) ? c - ('a' - 'A') : orig[i];
		H_ASSERT(g_region[i] == want, "vi_case: gu lowers, gU raises, ~ toggles the ASCII letters; every other byte (multi-byte characters included) is kept");
	}
	H_ASSERT(g_region[L] == 0, "vi_case: the length of the text does not change");
	H_ASSERT(CS.edit_calls == 1 && CS.edit_beg == CSI.r1 && CS.edit_end == CSI.r2 + 1, "vi_case: exactly the lines of the region are replaced");
	if (CSI.ln)
		H_ASSERT(CS.edit_text == g_region, "vi_case: line-wise, by the converted lines");
	else
		H_ASSERT(CS.edit_text == g_cstext && CS.step == 3 && CS.pre_end == CSI.o1 && CS.post_beg == CSI.o2, "vi_case: character-wise, by the first line before the region + the converted text + the last line after it");
	H_ASSERT(xrow == CSI.r2, "vi_case: the cursor goes to the end of the region");
#ifdef CANARY
	__CPROVER_assert(0, "canary");
#endif
}
