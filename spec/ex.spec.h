/* contracts, ghost state, environment and harnesses for /repo/ex.c
 *
 * ex.c sees the line buffer only through the lbuf_* interface (struct lbuf is opaque here), so
 * the callee contracts of lbuf_* are given as abstract stubs over ghost state (line count,
 * dirty flag, recorded splices); the lbuf units prove the matching clauses on the real lbuf.c.
 */
#include <sys/stat.h>

/* ghost state of the global unit */
struct ghost_glob {
	int kind, alive, pos, marked;
	int tested;		/* times the scan evaluated the pattern on the witness */
	int execs;		/* times the command list ran with the witness as current line */
	int last_get;		/* index of the last lbuf_get */
	int broke;		/* a command list failed: the scan stops early (documented) */
	int dep;		/* nesting depth of this global */
	int sets, any_exec;
} GW;
struct ghost_rep { int on; char out[24]; int n; } R;	/* replace units: the bytes appended, in order */
/* ghost state of the substitute units (declared early: the environment reset macro clears S.line) */
struct ghost_sub {
	char *line;		/* the line being rewritten (what lbuf_get returned) */
	long L;			/* its length including the final newline */
	long in_pos;		/* bytes of it accounted for so far */
	int finds;		/* rstr_find calls on this line */
	int matches;		/* matches replaced on this line */
	int bad;		/* a piece was appended out of order */
	int sb_live, sb_made, sb_freed;
	int beg, end;		/* the addressed range */
	int last_edit;		/* line number of the last lbuf_edit */
	int edits;
	int lines_seen;
	int re_ok;
	int rep_calls;
	long mlen;		/* length of the current match */
	int expect_char;	/* the last match was empty: the next verbatim piece must be exactly one character */
} S;

/* ------------------------------------------------------------------ environment: files */
/* all ghost bookkeeping lives in ONE struct so that a frame clause names a single target */
struct ghost_env {
	int f_st_exists;	/* the path named in this call exists */
	long f_st_mtime;	/* its modification time (>= 0) */
	int f_stat_calls;
	int f_open_calls, f_open_ok, f_open_fd;
	int f_close_calls, f_close_fail;
	int f_wr_calls, f_wr_ret, f_wr_beg, f_wr_end, f_wr_fd;
	int f_wr_fail_any, f_open_fail_any;
	struct lbuf *f_wr_lb;
} E;
#define g_st_exists	E.f_st_exists
#define g_st_mtime	E.f_st_mtime
#define g_stat_calls	E.f_stat_calls
#define g_open_calls	E.f_open_calls
#define g_open_ok	E.f_open_ok
#define g_open_fd	E.f_open_fd
#define g_close_calls	E.f_close_calls
#define g_close_fail	E.f_close_fail
#define g_wr_calls	E.f_wr_calls
#define g_wr_ret	E.f_wr_ret
#define g_wr_beg	E.f_wr_beg
#define g_wr_end	E.f_wr_end
#define g_wr_fd		E.f_wr_fd
#define g_wr_lb		E.f_wr_lb

/* STUB: stat(2) - the file named exists or not and has one mtime for the duration of the call (ghost world g_st_exists/g_st_mtime) */
int stat(const char *path, struct stat *st)
{
	__CPROVER_assert(path != 0, "stat: path is not NULL");
	g_stat_calls = g_stat_calls < 100 ? g_stat_calls + 1 : 100;
	if (!g_st_exists)
		return -1;
	st->st_mtime = g_st_mtime;
	return 0;
}

/* STUB: open(2) - may fail at every call; records the call */
static int verif_open(const char *path, int flags)
{
	__CPROVER_assert(path != 0, "open: path is not NULL");
	g_open_calls = g_open_calls < 100 ? g_open_calls + 1 : 100;
	if (nondet_bool() || path[0] == 0) {	/* POSIX: an empty pathname fails with ENOENT */
		g_open_ok = 0;
		E.f_open_fail_any = 1;
		return -1;
	}
	g_open_ok = 1;
	int fd = nondet_int();
	__CPROVER_assume(fd >= 0);
	g_open_fd = fd;
	return fd;
}

/* STUB: close(2) - may fail (EIO/ENOSPC on last flush); records the call */
int close(int fd)
{
	g_close_calls = g_close_calls < 100 ? g_close_calls + 1 : 100;
	if (nondet_bool()) {
		g_close_fail = 1;
		return -1;
	}
	return 0;
}

int conf_mode(void)
{
	return 0600;
}

/* ------------------------------------------------------------------ abstract line buffer */
int g_len;		/* number of lines of the current buffer xb */

/* callee contract of lbuf_len (lbuf unit: returns ln_n) */
int lbuf_len(struct lbuf *lb)
{
	return g_len;
}

/* callee contract of lbuf_wr as seen by lbuf_save: returns 0 or 1 (lbuf unit lbuf.lbuf_wr proves:
 * 1 iff a write failed, 0 => every byte written and the file cut to that length) */
int lbuf_wr(struct lbuf *lb, int fd, int beg, int end)
{
	__CPROVER_assert(0 <= beg && beg <= end && end <= g_len, "lbuf_wr precondition: 0 <= beg <= end <= number of lines");
	g_wr_calls = g_wr_calls < 100 ? g_wr_calls + 1 : 100;
	g_wr_lb = lb;
	g_wr_fd = fd;
	g_wr_beg = beg;
	g_wr_end = end;
	g_wr_ret = nondet_bool() ? 1 : 0;
	if (g_wr_ret)
		E.f_wr_fail_any = 1;
	return g_wr_ret;
}

#define FILE_ENV_HAVOC() do { S.line = 0; R.on = 0; g_st_exists = nondet_bool(); g_st_mtime = nondet_long(); \
	__CPROVER_assume(g_st_mtime >= 0); g_stat_calls = 0; g_open_calls = 0; g_open_ok = 0; \
	g_close_calls = 0; g_close_fail = 0; g_wr_calls = 0; g_wr_ret = 0; g_open_fd = -1; E.f_wr_fail_any = 0; E.f_open_fail_any = 0; \
	g_len = nondet_int(); __CPROVER_assume(g_len >= 0 && g_len <= 0x1000000); } while (0)

/* ------------------------------------------------------------------ lbuf_save (C03) */
char *lbuf_save_contract(struct lbuf *lb, int beg, int end, char *path, int force, long ts)
__CPROVER_requires(path != 0)
__CPROVER_requires(end < 0 ? (beg == 0) : (0 <= beg && beg <= end && end <= g_len))
__CPROVER_requires(g_open_calls == 0 && g_wr_calls == 0 && g_close_calls == 0 && !g_close_fail)
__CPROVER_assigns(E)
/* never clobber a foreign file (ts <= 0: not the file being edited) or a newer one */
__CPROVER_ensures((!force && g_st_exists && (ts <= 0 || g_st_mtime > ts)) ==>
	(__CPROVER_return_value != 0 && g_open_calls == 0 && g_wr_calls == 0))
/* failures of open, of the write-out and of close surface */
__CPROVER_ensures((g_open_calls > 0 && !g_open_ok) ==> (__CPROVER_return_value != 0 && g_wr_calls == 0))
__CPROVER_ensures((g_wr_calls > 0 && g_wr_ret != 0) ==> __CPROVER_return_value != 0)
__CPROVER_ensures(g_close_fail ==> __CPROVER_return_value != 0)
/* success is reported only if the file was opened, the whole range written and the file closed without error */
__CPROVER_ensures(__CPROVER_return_value == 0 ==> (g_open_calls == 1 && g_open_ok && g_wr_calls == 1 &&
	g_wr_ret == 0 && g_close_calls == 1 && !g_close_fail && g_wr_lb == lb && g_wr_fd == g_open_fd &&
	g_wr_beg == beg && g_wr_end == (end < 0 ? g_len : end)))
/* a forced write, or a write to the own unchanged file / a new file, is attempted */
__CPROVER_ensures((force || !g_st_exists && ts >= -1 || g_st_exists && ts > 0 && g_st_mtime <= ts) ==> g_open_calls == 1)
;

/* the same function seen by callers that save several buffers in a row: a failure of this
 * call (sticky ghost flags of the stubs) makes this call return an error */
char *lbuf_save_seq_contract(struct lbuf *lb, int beg, int end, char *path, int force, long ts)
__CPROVER_requires(path != 0)
__CPROVER_requires(end < 0 ? (beg == 0) : (0 <= beg && beg <= end && end <= g_len))
__CPROVER_assigns(E)
__CPROVER_ensures(E.f_wr_fail_any == __CPROVER_old(E.f_wr_fail_any) || (E.f_wr_fail_any == 1 && __CPROVER_return_value != 0))
__CPROVER_ensures(E.f_open_fail_any == __CPROVER_old(E.f_open_fail_any) || (E.f_open_fail_any == 1 && __CPROVER_return_value != 0))
__CPROVER_ensures(g_close_fail == __CPROVER_old(g_close_fail) || (g_close_fail == 1 && __CPROVER_return_value != 0))
__CPROVER_ensures((!force && g_st_exists && (ts <= 0 || g_st_mtime > ts)) ==>
	(__CPROVER_return_value != 0 && g_open_calls == __CPROVER_old(g_open_calls)))
__CPROVER_ensures(E.f_st_exists == __CPROVER_old(E.f_st_exists) && E.f_st_mtime == __CPROVER_old(E.f_st_mtime))
;

void h_lbuf_save_seq(void)
{
	struct lbuf *lb;
	int beg, end, force;
	long ts;
	char path[4];
	GHOST_INIT();
	FILE_ENV_HAVOC();
	g_open_calls = nondet_int() % 50; g_close_fail = nondet_bool();
	E.f_wr_fail_any = nondet_bool(); E.f_open_fail_any = nondet_bool();
	lbuf_save(lb, beg, end, path, force, ts);
#ifdef CANARY
	__CPROVER_assert(0, "canary");
#endif
}

void h_lbuf_save(void)
{
	struct lbuf *lb;
	int beg, end, force;
	long ts;
	char path[4];
	GHOST_INIT();
	FILE_ENV_HAVOC();
	lbuf_save(lb, beg, end, path, force, ts);
#ifdef CANARY
	__CPROVER_assert(0, "canary");
#endif
}

/* ================================================================== C02 / C03 / C20: dirty state, write, quit */
/* Sixteen abstract buffers: bufs[i].lb is either NULL or &g_lbobj[i] (distinct objects);
 * g_dirty[i] is the abstract "text differs from file" flag that lbuf_modified reports
 * (lbuf units prove lbuf_modified == (seq(hist_u) != useq_zero)). */
char g_lbobj[16];
static char g_outbuf[2];	/* what sbuf_buf() hands out in the substitute unit */
char *g_flags;		/* where the last re_read() left the argument pointer: the flags of :s */
int g_has_g;		/* that tail contains a 'g' */

/* recorded splices / register / mark operations of the line commands */
struct ghost_edit { int calls; char *txt; int beg, end; int len0; int yank_calls, yank_reg, yank_beg, yank_end; int mark_calls, mark, mark_pos; char *reg_buf; int cp_calls, cp_beg, cp_end; char *cp_ret; int print_lines, print_first, print_last; } X;

struct ghost_bufs {
	int dirty[16];
	int mod_calls;
	int saved_calls, saved_slot, saved_clear;
	int show_calls, print_calls;
	int pipe_calls, exec_calls;
	int rd_calls;
	int switch_calls, switch_idx;
	int regput_calls;
	int region_ret, region_beg, region_end;
	char *pathexp_ret;
} B;

static int slot_of(struct lbuf *lb)
{
	long d = (char *) lb - g_lbobj;
	__CPROVER_assert(__CPROVER_same_object(lb, g_lbobj) && d >= 0 && d < 16, "lbuf argument is one of the open buffers");
	return (int) d;
}

/* callee contract of lbuf_modified (lbuf unit lbuf.lbuf_modified) */
int lbuf_modified(struct lbuf *lb)
{
	B.mod_calls = B.mod_calls < 100 ? B.mod_calls + 1 : 100;
	return B.dirty[slot_of(lb)] != 0;
}

/* callee contract of lbuf_saved (lbuf unit lbuf.lbuf_saved): the buffer becomes clean */
void lbuf_saved(struct lbuf *lb, int clear)
{
	B.saved_calls = B.saved_calls < 100 ? B.saved_calls + 1 : 100;
	B.saved_slot = slot_of(lb);
	B.saved_clear = clear;
	B.dirty[slot_of(lb)] = clear < 0;
}

void ex_show(char *msg)
{
	__CPROVER_assert(msg != 0, "ex_show: message is not NULL");
	B.show_calls = B.show_calls < 100 ? B.show_calls + 1 : 100;
}

void ex_print(char *line)
{
	B.print_calls = B.print_calls < 100 ? B.print_calls + 1 : 100;
}

char *cmd_pipe(char *cmd, char *ibuf, int oproc)
{
	B.pipe_calls = B.pipe_calls < 100 ? B.pipe_calls + 1 : 100;
	return 0;
}

int cmd_exec(char *cmd)
{
	B.exec_calls = B.exec_calls < 100 ? B.exec_calls + 1 : 100;
	return nondet_int();
}

char *lbuf_cp(struct lbuf *lb, int beg, int end)
{
	__CPROVER_assert(0 <= beg && beg <= end, "lbuf_cp precondition: 0 <= beg <= end");
	char *r = malloc(1);
	r[0] = 0;
	return r;
}

void reg_put(int c, char *s, int ln)
{
	__CPROVER_assert(s != 0, "reg_put: text is not NULL");
	__CPROVER_assert(c >= 0 && c < 256, "reg_put: register index in [0,256)");
	B.regput_calls = B.regput_calls < 100 ? B.regput_calls + 1 : 100;
}

/* string equality of paths: an uninterpreted function of the two pointers (the strings are not
 * modified during a command), reflexive, and a fresh duplicate equals its source */
char *g_dup_src, *g_dup_dst;
int __CPROVER_uninterpreted_strcmp(const char *, const char *);
/* STUB: strcmp on path strings - uninterpreted, reflexive on equal pointers, 0 between uc_dup's result and its source */
int strcmp(const char *a, const char *b)
{
	__CPROVER_assert(a != 0 && b != 0, "strcmp: arguments are not NULL");
	if (a == b)
		return 0;
	/* exact when one side is a one-character string (e.g. the literal "%") */
	if (a[0] != 0 && a[1] == 0)
		return (b[0] == a[0] && b[1] == 0) ? 0 : (b[0] == 0 ? 1 : ((unsigned char) a[0] < (unsigned char) b[0] ? -1 : 1));
	if (b[0] != 0 && b[1] == 0)
		return (a[0] == b[0] && a[1] == 0) ? 0 : (a[0] == 0 ? -1 : ((unsigned char) a[0] < (unsigned char) b[0] ? -1 : 1));
	if ((a == g_dup_dst && b == g_dup_src) || (a == g_dup_src && b == g_dup_dst))
		return 0;
	return __CPROVER_uninterpreted_strcmp(a, b);
}

/* STUB: uc_dup - fresh copy (content equality recorded for the strcmp stub) */
char *uc_dup(char *s)
{
	__CPROVER_assert(s != 0, "uc_dup: argument is not NULL");
	char *r = malloc(2);
	r[0] = s[0];
	r[1] = 0;
	g_dup_src = s;
	g_dup_dst = r;
	return r;
}

/* STUB: snprintf - destination writable for n bytes, result NUL-terminated within n, content arbitrary; returns any int >= 0 */
static int verif_snprintf(char *s, unsigned long n)
{
	__CPROVER_assert(__CPROVER_w_ok(s, n), "snprintf: destination writable for n bytes");
	if (n > 0) {
		unsigned long k = nondet_ulong();
		__CPROVER_assume(k < n);
		__CPROVER_havoc_object(s - __CPROVER_POINTER_OFFSET(s));
		s[k] = 0;
	}
	int r = nondet_int();
	__CPROVER_assume(r >= 0);
	return r;
}

/* STUB: sprintf - unbounded write: asserts only that the destination is writable; the length is checked in the units that bound the arguments */
static int verif_sprintf(char *s)
{
	__CPROVER_assert(__CPROVER_w_ok(s, 1), "sprintf: destination writable");
	__CPROVER_havoc_object(s - __CPROVER_POINTER_OFFSET(s));
	int r = nondet_int();
	__CPROVER_assume(r >= 0);
	return r;
}

/* callee contract of ex_pathexpand: NULL or a NUL-terminated string in its static buffer */
char *ex_pathexpand_contract(char *src, int spaceallowed)
__CPROVER_requires(src != 0)
__CPROVER_assigns(B.show_calls)
__CPROVER_ensures(__CPROVER_return_value == B.pathexp_ret)
;

/* callee contract of ex_region as used by the write/quit units: on success a validated range */
int ex_region_contract(char *loc, int *beg, int *end)
__CPROVER_requires(loc != 0 && __CPROVER_w_ok(beg, sizeof(int)) && __CPROVER_w_ok(end, sizeof(int)))
__CPROVER_assigns(*beg, *end, xrow)
__CPROVER_ensures(__CPROVER_return_value == B.region_ret)
__CPROVER_ensures(__CPROVER_return_value == 0 ==> (*beg == B.region_beg && *end == B.region_end))
;

#define BUFS_HAVOC() do { int i_; \
	for (i_ = 0; i_ < 16; i_++) { \
		bufs[i_].lb = nondet_bool() ? (struct lbuf *) &g_lbobj[i_] : (struct lbuf *) 0; \
		bufs[i_].path = bufs[i_].lb ? (i_ == 0 ? malloc(2) : g_paths[i_]) : (char *) 0; \
		if (bufs[i_].path) { bufs[i_].path[0] = nondet_char(); bufs[i_].path[1] = 0; } \
		bufs[i_].mtime = nondet_long(); bufs[i_].id = nondet_short(); \
		bufs[i_].row = nondet_int(); bufs[i_].off = nondet_int(); bufs[i_].top = nondet_int(); \
		bufs[i_].left = nondet_int(); bufs[i_].td = nondet_short(); \
		B.dirty[i_] = nondet_bool(); \
	} \
	B.mod_calls = B.saved_calls = B.show_calls = B.print_calls = B.pipe_calls = B.exec_calls = 0; \
	B.rd_calls = B.switch_calls = B.regput_calls = 0; B.saved_slot = -1; B.switch_idx = -1; \
	B.region_ret = nondet_bool(); B.region_beg = nondet_int(); B.region_end = nondet_int(); \
	__CPROVER_assume(0 <= B.region_beg && B.region_beg <= B.region_end && B.region_end <= g_len); \
	g_dup_src = g_dup_dst = 0; \
	xaw = nondet_bool(); xwa = nondet_bool(); xquit = 0; xrow = nondet_int(); xoff = nondet_int(); \
	xtop = nondet_int(); xleft = nondet_int(); xtd = nondet_int(); \
	} while (0)

char g_paths[16][2];
/* a command name as ex_cmd produces it: at most 17 bytes + NUL */
#define CMD_HAVOC(c) do { int k_; for (k_ = 0; k_ < 18; k_++) (c)[k_] = nondet_char(); (c)[18] = 0; } while (0)
static int has_chr(const char *s, int c)
{
	int k;
	for (k = 0; k < 19 && s[k]; k++)
		if (s[k] == c)
			return 1;
	return 0;
}

/* ------------------------------------------------------------------ ec_write (C02, C03) */
struct ghost_wr { long mtime0; int dirty0; int own; int whole; int force; char *path; } W;

/* frame of an ex command function: ex-level globals and the ghost records; the functional
 * clauses are the assertions of the harness (they need pre-state snapshots of several objects) */
int ec_cmd_frame_contract(char *loc, char *cmd, char *arg, char *txt)
__CPROVER_requires(loc != 0 && cmd != 0 && arg != 0)
__CPROVER_assigns(E, B, X, S, GW, xgdep, g_flags, g_has_g, loc[0], loc[1], __CPROVER_object_whole(bufs), xrow, xoff, xtop, xleft, xtd, xquit, g_dup_src, g_dup_dst, g_len,
	__CPROVER_object_whole(xkwd), __CPROVER_object_whole(xrep), xkwddir)
__CPROVER_frees(bufs[0].path)
__CPROVER_ensures(1)
;

/* ec_write: frame (only the current buffer's bookkeeping, never another buffer, never xquit) */
int ec_write_contract(char *loc, char *cmd, char *arg, char *txt)
__CPROVER_requires(loc != 0 && cmd != 0 && arg != 0 && bufs[0].lb != 0 && bufs[0].path != 0)
__CPROVER_assigns(E, B.dirty[0], B.saved_calls, B.saved_slot, B.saved_clear, B.mod_calls, B.show_calls,
	B.print_calls, B.pipe_calls, B.regput_calls, bufs[0].path, bufs[0].mtime, xrow, g_dup_src, g_dup_dst)
__CPROVER_frees(bufs[0].path)
__CPROVER_ensures(__CPROVER_return_value == 0 || __CPROVER_return_value == 1)
__CPROVER_ensures(bufs[0].path != 0)
;

void h_ec_write(void)
{
	char loc[4], cmd[19], arg[4];
	char pathbuf[2];
	GHOST_INIT();
	FILE_ENV_HAVOC();
	BUFS_HAVOC();
	CMD_HAVOC(cmd);
	loc[0] = nondet_char(); loc[1] = 0;
	arg[0] = nondet_char(); arg[1] = 0;
	pathbuf[0] = nondet_char(); pathbuf[1] = 0;
	B.pathexp_ret = nondet_bool() ? pathbuf : (char *) 0;
	__CPROVER_assume(bufs[0].lb != 0);
	W.mtime0 = bufs[0].mtime;
	W.dirty0 = B.dirty[0];
	W.force = has_chr(cmd, '!');
	char *path0 = bufs[0].path;
	int path0_empty = path0[0] == 0;
	/* which path is written, whether it is the buffer's own (an unnamed buffer adopts the path) */
	char *path = arg[0] ? B.pathexp_ret : path0;
	int own = path ? (path0_empty ? 1 : strcmp(path0, path) == 0) : 0;
	int is_file = path && path[0] != '!';
	int ret = ec_write(loc, cmd, arg, 0);
	if (is_file) {
		int whole = g_wr_calls == 1 && g_wr_beg == 0 && g_wr_end == g_len;
		/* C03: an error of the save surfaces: command fails, buffer stays dirty, mtime untouched */
		if (g_wr_calls > 0 && (g_wr_ret || g_close_fail)) {
			H_ASSERT(ret == 1, "ec_write: a failed write-out makes the command fail");
			H_ASSERT(B.saved_calls == 0, "ec_write: a failed write never marks the buffer saved");
			H_ASSERT(bufs[0].mtime == W.mtime0, "ec_write: a failed write leaves the recorded mtime alone");
		}
		if (g_open_calls > 0 && !g_open_ok)
			H_ASSERT(ret == 1 && B.saved_calls == 0 && bufs[0].mtime == W.mtime0,
				"ec_write: a failed open makes the command fail and keeps the buffer dirty");
		/* C03: without '!' a foreign existing file, or a newer own file, is never opened for writing */
		if (!W.force && g_st_exists && (!own || W.mtime0 <= 0 || g_st_mtime > W.mtime0))
			H_ASSERT(g_open_calls == 0 && (ret == 1 || (cmd[0] == 'x' && !W.dirty0 && g_stat_calls == 0)),
				"ec_write: refuses to clobber a foreign or newer file");
		/* C02: the buffer is marked saved only for its own path, only after a successful save,
		 * and only when the whole buffer was written */
		if (B.saved_calls > 0 && B.saved_clear >= 0) {
			H_ASSERT(ret == 0 && g_wr_calls == 1 && g_wr_ret == 0 && !g_close_fail && g_open_ok,
				"ec_write: buffer marked saved only after a successful save");
			H_ASSERT(own, "ec_write: buffer marked saved only for its own path");
			H_ASSERT(whole, "ec_write: buffer marked saved only after a write of the whole buffer");
			H_ASSERT(B.saved_slot == 0, "ec_write: the current buffer is the one marked saved");
		}
		/* C02: after a successful partial write to the own path the buffer is dirty */
		if (ret == 0 && g_wr_calls == 1 && own && !whole)
			H_ASSERT(B.dirty[0], "ec_write: a partial write to the own file leaves the buffer dirty");
		/* C02: a write to another path never changes the dirty state */
		if (!own)
			H_ASSERT(B.dirty[0] == W.dirty0 && bufs[0].mtime == W.mtime0,
				"ec_write: writing to another path leaves dirty state and mtime alone");
		if (ret == 0 && g_wr_calls == 1 && own && whole)
			H_ASSERT(B.saved_calls == 1 && !B.dirty[0], "ec_write: a successful whole-buffer write to the own path marks the buffer saved");
	}
	if (ret == 1)
		H_ASSERT(B.dirty[0] == W.dirty0, "ec_write: a failed command leaves the dirty state alone");
#ifdef CANARY
	__CPROVER_assert(0, "canary");
#endif
}

/* ------------------------------------------------------------------ bufs_switch as seen by its callers */
/* the clauses about real state are shared by the contract that unit ex.bufs_switch ENFORCES on
 * the real function (bufs_switch_frame_contract) and the one callers use; the latter only adds
 * a ghost record of the call */
#define BUFS_SWITCH_REAL \
__CPROVER_requires(0 <= idx && idx < 16 && bufs[idx].lb != 0) \
__CPROVER_ensures(bufs[0].lb == __CPROVER_old(bufs[idx].lb) && bufs[0].path == __CPROVER_old(bufs[idx].path) && \
	bufs[0].mtime == __CPROVER_old(bufs[idx].mtime) && bufs[0].id == __CPROVER_old(bufs[idx].id)) \
__CPROVER_ensures(xrow == (idx ? __CPROVER_old(bufs[idx].row) : __CPROVER_old(xrow)))

void bufs_switch_frame_contract(int idx)
BUFS_SWITCH_REAL
__CPROVER_assigns(__CPROVER_object_whole(bufs), xrow, xoff, xtop, xleft, xtd, B.regput_calls)
;

void bufs_switch_contract(int idx)
BUFS_SWITCH_REAL
__CPROVER_assigns(B.switch_calls, B.switch_idx, B.regput_calls, __CPROVER_object_whole(bufs), xrow, xoff, xtop, xleft, xtd)
__CPROVER_ensures(B.switch_calls == __CPROVER_old(B.switch_calls) + 1 && B.switch_idx == idx)
;

/* bufs_modified: "is slot idx dirty" (with autowrite: try to save it first) */
int bufs_modified_contract(int idx, char *msg)
__CPROVER_requires(0 <= idx && idx < 16 && (bufs[idx].lb == 0 || bufs[idx].path != 0))
__CPROVER_assigns(E, B.mod_calls, B.show_calls)
__CPROVER_ensures(__CPROVER_return_value == 0 || __CPROVER_return_value == 1)
/* a clean or empty slot never blocks */
__CPROVER_ensures((bufs[idx].lb == 0 || !B.dirty[idx]) ==> __CPROVER_return_value == 0)
/* without autowrite a dirty slot always blocks, and nothing is written */
__CPROVER_ensures((bufs[idx].lb != 0 && B.dirty[idx] && !xaw) ==> __CPROVER_return_value == 1)
__CPROVER_ensures(!xaw ==> (g_open_calls == __CPROVER_old(g_open_calls) && g_close_fail == __CPROVER_old(g_close_fail) &&
	E.f_wr_fail_any == __CPROVER_old(E.f_wr_fail_any) && E.f_open_fail_any == __CPROVER_old(E.f_open_fail_any)))
__CPROVER_ensures(E.f_st_exists == __CPROVER_old(E.f_st_exists) && E.f_st_mtime == __CPROVER_old(E.f_st_mtime))
;

void h_bufs_modified(void)
{
	int idx;
	char msg[2];
	GHOST_INIT();
	FILE_ENV_HAVOC();
	BUFS_HAVOC();
	msg[1] = 0;
	bufs_modified(idx, nondet_bool() ? msg : (char *) 0);
#ifdef CANARY
	__CPROVER_assert(0, "canary");
#endif
}

/* ------------------------------------------------------------------ ec_quit (C02, C03, C20) */
struct ghost_quit { int k; int has_a, has_bang; } Q;

void h_ec_quit(void)
{
	char loc[2], cmd[19], arg[2];
	char pathbuf[2];
	int k;
	GHOST_INIT();
	FILE_ENV_HAVOC();
	BUFS_HAVOC();
	CMD_HAVOC(cmd);
	loc[0] = 0;
	arg[0] = nondet_char(); arg[1] = 0;
	pathbuf[0] = nondet_char(); pathbuf[1] = 0;
	B.pathexp_ret = nondet_bool() ? pathbuf : (char *) 0;
	__CPROVER_assume(bufs[0].lb != 0);
	Q.has_a = has_chr(cmd, 'a');
	Q.has_bang = has_chr(cmd, '!');
	int writes_first = cmd[0] == 'w' || cmd[0] == 'x';
	/* the first dirty open buffer, as it stands before the command */
	int first_dirty = -1;
	for (k = 15; k >= 0; k--)
		if (bufs[k].lb && B.dirty[k])
			first_dirty = k;
	Q.k = first_dirty;
	int ret = ec_quit(loc, cmd, arg, 0);
	/* C02: plain quit (no 'a', no '!', no autowrite) is refused while any buffer is dirty, and
	 * the editor switches to the first dirty one */
	if (!Q.has_a && !Q.has_bang && !xaw && !writes_first) {
		if (first_dirty >= 0) {
			H_ASSERT(xquit == 0, "ec_quit: refuses to quit while a buffer is dirty");
			H_ASSERT(B.switch_calls == 1 && B.switch_idx == first_dirty, "ec_quit: switches to the first dirty buffer");
			H_ASSERT(g_open_calls == 0, "ec_quit: a refused quit writes nothing");
		} else {
			H_ASSERT(xquit == 1 && B.switch_calls == 0, "ec_quit: quits when every buffer is clean");
		}
	}
	/* C02: wq/x: a failed write aborts the quit; a buffer that is still dirty refuses it */
	if (writes_first && !Q.has_a && !Q.has_bang && !xaw) {
		if (ret == 1)
			H_ASSERT(xquit == 0, "ec_quit: wq aborts when the write fails");
		if (first_dirty > 0)
			H_ASSERT(xquit == 0, "ec_quit: wq refuses to quit while another buffer is dirty");
		if (xquit == 1)
			H_ASSERT(!B.dirty[0] && ret == 0, "ec_quit: wq quits only with the current buffer clean");
	}
	/* C03: xa / wqa: any failing save aborts the quit */
	if (Q.has_a && !writes_first) {
		if (g_close_fail || E.f_wr_fail_any || E.f_open_fail_any)
			H_ASSERT(xquit == 0 && B.switch_calls == 1, "ec_quit: 'a' stops at the first buffer whose save fails");
	}
	/* a forced quit always quits */
	if (Q.has_bang && !Q.has_a && !writes_first)
		H_ASSERT(xquit == 1, "ec_quit: q! quits");
	H_ASSERT(ret == 0 || ret == 1, "ec_quit: returns 0 or 1");
#ifdef CANARY
	__CPROVER_assert(0, "canary");
#endif
}

/* ================================================================== ex_command: one sequence bump per top-level command (C02, C04) */
int ex_exec_contract(char *ln)
__CPROVER_requires(ln != 0)
__CPROVER_assigns(E, B.show_calls, B.print_calls, B.saved_calls, xrow, xoff, g_len)
__CPROVER_ensures(B.mod_calls == __CPROVER_old(B.mod_calls))
;

int ex_command_contract(char *ln)
__CPROVER_requires(ln != 0 && bufs[0].lb != 0)
__CPROVER_assigns(E, B.show_calls, B.print_calls, B.saved_calls, B.mod_calls, xrow, xoff, g_len)
__CPROVER_ensures(B.mod_calls == __CPROVER_old(B.mod_calls) + 1)
;

void h_ex_command(void)
{
	char ln[4];
	GHOST_INIT();
	FILE_ENV_HAVOC();
	BUFS_HAVOC();
	__CPROVER_assume(bufs[0].lb != 0);
	ln[3] = 0;
	int ret = ex_command(ln);
	/* whether the command list succeeded or failed, the command counter of the current buffer
	 * is bumped exactly once, after the whole list: commands never share an undo step, and all
	 * sub-commands of one list do */
	H_ASSERT(B.mod_calls == 1, "ex_command: bumps the sequence counter exactly once per top-level command, also when the command fails");
#ifdef CANARY
	__CPROVER_assert(0, "canary");
#endif
}

/* ================================================================== the buffer table (C20) */
int g_free_calls, g_make_calls;
struct lbuf *g_free_last;
void lbuf_free(struct lbuf *lb)
{
	__CPROVER_assert(lb != 0, "lbuf_free: argument is not NULL");
	g_free_calls++;
	g_free_last = lb;
}
int g_make_slot;	/* which abstract buffer object the next lbuf_make hands out (a closed slot) */
struct lbuf *lbuf_make(void)
{
	g_make_calls++;
	return (struct lbuf *) &g_lbobj[g_make_slot];
}
char *syn_filetype(char *path)
{
	static char ft[2];
	__CPROVER_assert(path != 0, "syn_filetype: path is not NULL");
	ft[0] = nondet_char();
	ft[1] = 0;
	return ft;
}
char *strcpy(char *d, const char *s)
{
	/* only used for the file type (<= 31 bytes + NUL by conf.h); modelled for the 1-char stub above */
	__CPROVER_assert(__CPROVER_w_ok(d, 2), "strcpy: destination writable");
	d[0] = s[0];
	d[1] = 0;
	return d;
}

struct buf g_old[16];
int g_k;	/* witness slot */
int g_fb;	/* witness byte of the file-type field */
#define SAMEBUF(a, b)	((a).lb == (b).lb && (a).path == (b).path && (a).id == (b).id && (a).td == (b).td && \
	(a).mtime == (b).mtime && (a).row == (b).row && (a).off == (b).off && (a).top == (b).top && \
	(a).left == (b).left && (a).ft[0] == (b).ft[0] && (a).ft[31] == (b).ft[31])

void h_bufs_switch(void)
{
	int idx = nondet_int(), k;
	GHOST_INIT();
	FILE_ENV_HAVOC();
	BUFS_HAVOC();
	g_k = nondet_int();
	__CPROVER_assume(0 <= g_k && g_k < 16);
	__CPROVER_assume(0 <= idx && idx < 16 && bufs[idx].lb != 0);
	for (k = 0; k < 16; k++) {
		bufs[k].ft[0] = nondet_char();	/* first and last byte of the file-type field stand for the field */
		bufs[k].ft[31] = nondet_char();
		g_old[k] = bufs[k];
	}
	int g_free0 = g_free_calls, g_make0 = g_make_calls;
	/* the view of the current buffer is saved into slot 0 before the rotation */
	g_old[0].row = xrow; g_old[0].off = xoff; g_old[0].top = xtop; g_old[0].left = xleft; g_old[0].td = (short) xtd;
	/* case split over the 16 slots: each call has a constant index, hence constant copy sizes */
	switch (idx) {
#define SW_(n) case n: bufs_switch(n); break;
	SW_(0) SW_(1) SW_(2) SW_(3) SW_(4) SW_(5) SW_(6) SW_(7)
	SW_(8) SW_(9) SW_(10) SW_(11) SW_(12) SW_(13) SW_(14) SW_(15)
#undef SW_
	}
	/* a rotation: the named buffer comes to the front, those before it move down by one, the rest stay */
	H_ASSERT(SAMEBUF(bufs[0], g_old[idx]), "bufs_switch: the buffer reached is the one named (slot idx comes to the front)");
	if (g_k >= 1 && g_k <= idx)
		H_ASSERT(SAMEBUF(bufs[g_k], g_old[g_k - 1]), "bufs_switch: slots before idx move down by one, each keeping its text, position and file");
	if (g_k > idx)
		H_ASSERT(SAMEBUF(bufs[g_k], g_old[g_k]), "bufs_switch: slots after idx are untouched");
	/* the view of the reached buffer is loaded */
	H_ASSERT(xrow == g_old[idx].row && xoff == g_old[idx].off && xtop == g_old[idx].top &&
		xleft == g_old[idx].left && xtd == g_old[idx].td, "bufs_switch: cursor and window of the reached buffer are restored");
	/* no line buffer is touched: no lbuf_* call at all */
	H_ASSERT(B.mod_calls == 0 && B.saved_calls == 0, "bufs_switch: no buffer's dirty state is consulted or changed");
	H_ASSERT(g_free_calls == g_free0 && g_make_calls == g_make0 && B.rd_calls == 0, "bufs_switch: no buffer is freed, created or re-read");
#ifdef CANARY
	__CPROVER_assert(0, "canary");
#endif
}

/* bufs_find: first slot whose path equals the argument, or -1 ("/" stands for the unnamed buffer) */
int bufs_find_contract(char *path)
__CPROVER_requires(path != 0 && path[0] != '/')
__CPROVER_assigns()
__CPROVER_ensures(__CPROVER_return_value >= -1 && __CPROVER_return_value < 16)
__CPROVER_ensures(__CPROVER_return_value >= 0 ==> (bufs[__CPROVER_return_value].path != 0 &&
	strcmp(bufs[__CPROVER_return_value].path, path) == 0))
__CPROVER_ensures((bufs[g_k].path != 0 && strcmp(bufs[g_k].path, path) == 0) ==>
	(__CPROVER_return_value >= 0 && __CPROVER_return_value <= g_k))
;

/* bufs_open: (re)initialises the first free slot (slot 15 when the table is full) for the path */
int bufs_open_contract(char *path)
__CPROVER_requires(path != 0)
__CPROVER_requires(0 <= bufs_cnt && bufs_cnt < 0x3fffffff && 0 <= g_free_calls && g_free_calls < 1000 && 0 <= g_make_calls && g_make_calls < 1000)
__CPROVER_assigns(__CPROVER_object_whole(bufs), bufs_cnt, g_free_calls, g_free_last, g_make_calls, g_dup_src, g_dup_dst)
__CPROVER_frees(bufs[15].path)
__CPROVER_ensures(0 <= __CPROVER_return_value && __CPROVER_return_value < 16)
__CPROVER_ensures(bufs[__CPROVER_return_value].lb != 0 && bufs[__CPROVER_return_value].path != 0)
__CPROVER_ensures(bufs[__CPROVER_return_value].mtime == -1)
__CPROVER_ensures(g_make_calls == __CPROVER_old(g_make_calls) + 1)
/* an open buffer is recycled only when all 16 slots are in use (then it is slot 15) */
__CPROVER_ensures(g_free_calls == __CPROVER_old(g_free_calls) ||
	(__CPROVER_return_value == 15 && g_free_calls == __CPROVER_old(g_free_calls) + 1))
/* every other slot keeps its buffer and path */
__CPROVER_ensures(g_k == __CPROVER_return_value || (bufs[g_k].lb == __CPROVER_old(bufs[g_k].lb) && bufs[g_k].path == __CPROVER_old(bufs[g_k].path)))
;

void h_bufs_open(void)
{
	char path[2];
	GHOST_INIT();
	FILE_ENV_HAVOC();
	BUFS_HAVOC();
	g_k = nondet_int();
	__CPROVER_assume(0 <= g_k && g_k < 16);
	g_make_slot = nondet_int();
	__CPROVER_assume(0 <= g_make_slot && g_make_slot < 16);
	path[0] = nondet_char(); path[1] = 0;
	/* slot 15 owns its path string (heap) when it is in use */
	if (bufs[15].lb) {
		bufs[15].path = malloc(2);
		bufs[15].path[1] = 0;
	}
	bufs_open(path);
#ifdef CANARY
	__CPROVER_assert(0, "canary");
#endif
}

/* lookup by path, free slot, renumbering */
void h_bufs_find(void)
{
	char path[2];
	int k;
	GHOST_INIT();
	FILE_ENV_HAVOC();
	BUFS_HAVOC();
	g_k = nondet_int();
	__CPROVER_assume(0 <= g_k && g_k < 16);
	path[0] = nondet_char(); path[1] = 0;
	__CPROVER_assume(path[0] != '/');	/* "/" is looked up as "" (the unnamed buffer) */
	int r = bufs_find(path);
	H_ASSERT(r >= -1 && r < 16, "bufs_find: slot index or -1");
	if (r >= 0)
		H_ASSERT(bufs[r].path != 0 && strcmp(bufs[r].path, path) == 0, "bufs_find: the slot found holds the path asked for");
	if (bufs[g_k].path != 0 && strcmp(bufs[g_k].path, path) == 0)
		H_ASSERT(r >= 0 && r <= g_k, "bufs_find: an open path is found (re-editing returns to the existing buffer), first match wins");
	int room = bufs_findroom();
	H_ASSERT(0 <= room && room < 16, "bufs_findroom: a slot index");
	H_ASSERT(bufs[room].lb == 0 || room == 15, "bufs_findroom: an empty slot, or the last slot when all 16 are in use");
	if (g_k < room)
		H_ASSERT(bufs[g_k].lb != 0, "bufs_findroom: the first empty slot");
	/* renumbering: ids 1..n in slot order */
	bufs_number();
	int n = 0;
	for (k = 0; k < 16; k++)
		if (bufs[k].lb) {
			n++;
			if (k == g_k)
				H_ASSERT(bufs[k].id == n, "bufs_number: ids are dense and follow slot order");
		}
	H_ASSERT(bufs_cnt == n, "bufs_number: the id counter equals the number of open buffers");
#ifdef CANARY
	__CPROVER_assert(0, "canary");
#endif
}

/* ================================================================== ec_buffer, ec_edit (C20, C02) */
int g_atoi;		/* value returned when g_atoi_fixed (units that do not care about address arithmetic) */
int g_atoi_fixed;
int g_atoi_sum;	/* sum (int arithmetic, wrapping like the compiled code) of all values returned so far */
int g_atoi_first, g_atoi_calls;
/* STUB: atoi - any int the sign of the text allows; the digits are not interpreted (callers are checked for every value) */
int atoi(const char *s)
{
	__CPROVER_assert(s != 0, "atoi: argument is not NULL");
	if (g_atoi_fixed)
		return g_atoi;
	int v = nondet_int();
	__CPROVER_assume(s[0] != '-' || v <= 0);
	__CPROVER_assume(s[0] == '-' || v >= 0);
	if (g_atoi_calls == 0)
		g_atoi_first = v;
	g_atoi_calls = g_atoi_calls < 1000 ? g_atoi_calls + 1 : 1000;
	g_atoi_sum = (int) ((unsigned) g_atoi_sum + (unsigned) v);
	return v;
}

int g_rd_beg, g_rd_end, g_rd_fd, g_rd_ret;
int lbuf_rd(struct lbuf *lb, int fd, int beg, int end)
{
	B.rd_calls = B.rd_calls < 100 ? B.rd_calls + 1 : 100;
#ifdef UNIT_EC_READ
	/* lbuf_rd as proved in unit lbuf.lbuf_rd: on a read error nothing is spliced; on success the stream replaces lines beg..end-1 */
	g_rd_beg = beg; g_rd_end = end; g_rd_fd = fd;
	g_rd_ret = nondet_bool();
	if (!g_rd_ret) {
		int ins = nondet_int();
		__CPROVER_assume(0 <= ins && ins <= 0x100000 && g_len <= 0x1000000);
		g_len = g_len - (end - beg) + ins;
	}
	return g_rd_ret;
#else
	return nondet_bool();
#endif
}

void h_ec_buffer(void)
{
	char loc[2], cmd[19], arg[3];
	int k;
	GHOST_INIT();
	FILE_ENV_HAVOC();
	BUFS_HAVOC();
	CMD_HAVOC(cmd);
	loc[0] = 0;
	arg[0] = nondet_char(); arg[1] = nondet_char(); arg[2] = 0;
	g_atoi = nondet_int();
	g_atoi_fixed = 1;
	g_k = nondet_int();
	__CPROVER_assume(0 <= g_k && g_k < 16);
	__CPROVER_assume(bufs[0].lb != 0);
	__CPROVER_assume(arg[0] != 0 && arg[0] != '!' && arg[0] != '~');	/* the switching forms */
	int bang = has_chr(cmd, '!');
	int dirty0 = B.dirty[0];
	short id0 = bufs[0].id;
	/* what the statement names */
	int want = -1;
	if (arg[0] >= '0' && arg[0] <= '9') {
		for (k = 15; k >= 0; k--)
			if (bufs[k].lb && bufs[k].id == g_atoi)
				want = k;
	} else if (arg[0] == '+') {
		for (k = 0; k < 16; k++)
			if (bufs[k].lb && bufs[k].id > id0 && (want < 0 || bufs[k].id < bufs[want].id))
				want = k;
	} else if (arg[0] == '-') {
		for (k = 0; k < 16; k++)
			if (bufs[k].lb && bufs[k].id < id0 && (want < 0 || bufs[k].id > bufs[want].id))
				want = k;
	} else {
		want = arg[0] == '%' ? 0 : arg[0] == '#' ? 1 : arg[0] == '^' ? 2 : -1;
		if (want >= 0 && !bufs[want].lb)
			want = -1;
	}
	int free0 = g_free_calls;
	int ret = ec_buffer(loc, cmd, arg, 0);
	if (want < 0) {
		H_ASSERT(ret == 1 && B.switch_calls == 0, "ec_buffer: an unknown buffer is refused and nothing changes");
	} else if (!bang && !xwa && !xaw && dirty0) {
		/* C02 */
		H_ASSERT(ret == 1 && B.switch_calls == 0, "ec_buffer: refuses to leave a modified buffer without '!'");
	} else if (bang || xwa || !dirty0) {
		H_ASSERT(ret == 0 && B.switch_calls == 1 && B.switch_idx == want, "ec_buffer: the buffer reached is the one named (number, +, -, alias)");
	}
	H_ASSERT(B.saved_calls == 0, "ec_buffer: switching never marks a buffer saved");
	H_ASSERT(B.rd_calls == 0, "ec_buffer: switching never re-reads a file");
	H_ASSERT(g_free_calls == free0, "ec_buffer: switching never frees a buffer");
#ifdef CANARY
	__CPROVER_assert(0, "canary");
#endif
}

/* ec_edit */
char *ex_plus_contract(char *src, char *dst)
__CPROVER_requires(src != 0 && __CPROVER_w_ok(dst, EXLEN))
__CPROVER_assigns(dst[0], dst[1])
__CPROVER_ensures(__CPROVER_return_value != 0 && __CPROVER_same_object(__CPROVER_return_value, src))
__CPROVER_ensures(dst[0] == 0 || (dst[0] == '+' && dst[1] == 0))
;
int ex_command_rec_contract(char *ln)
__CPROVER_requires(ln != 0)
__CPROVER_assigns(E, B.show_calls, B.print_calls, xrow, xoff, g_len)
;

int ec_edit_frame_contract(char *loc, char *cmd, char *arg, char *txt)
__CPROVER_requires(loc != 0 && cmd != 0 && arg != 0)
__CPROVER_assigns(E, B, __CPROVER_object_whole(bufs), xrow, xoff, xtop, xleft, xtd, g_dup_src, g_dup_dst, g_len,
	g_free_calls, g_free_last, g_make_calls, bufs_cnt)
__CPROVER_frees(bufs[15].path, bufs[0].path)
;

void h_ec_edit(void)
{
	char loc[2], cmd[19], arg[3];
	char pathbuf[2];
	GHOST_INIT();
	FILE_ENV_HAVOC();
	BUFS_HAVOC();
	CMD_HAVOC(cmd);
	loc[0] = 0;
	arg[0] = nondet_char(); arg[1] = 0;
	pathbuf[0] = nondet_char(); pathbuf[1] = 0;
	__CPROVER_assume(pathbuf[0] != '/');
	B.pathexp_ret = nondet_bool() ? pathbuf : (char *) 0;
	g_k = nondet_int();
	__CPROVER_assume(0 <= g_k && g_k < 16);
	__CPROVER_assume(bufs[0].lb != 0);
	int bang = has_chr(cmd, '!');
	int dirty0 = B.dirty[0];
	/* is the path already open?  (string equality is the uninterpreted strcmp of the stubs) */
	int open_at = -1, k;
	for (k = 15; k >= 0; k--)
		if (bufs[k].path && strcmp(bufs[k].path, pathbuf) == 0)
			open_at = k;
	int is_ew = cmd[0] == 'e' && cmd[1] == 'w';
	g_make_slot = nondet_int();
	__CPROVER_assume(0 <= g_make_slot && g_make_slot < 16 && bufs[g_make_slot].lb == 0);
	struct lbuf *target = open_at >= 0 ? bufs[open_at].lb : 0;
	int free0 = g_free_calls;
	int ret = ec_edit(loc, cmd, arg, 0);
	if (!bang && !xwa && !xaw && dirty0) {
		/* C02 */
		H_ASSERT(ret == 1 && B.switch_calls == 0 && B.rd_calls == 0 && g_open_calls == 0 && g_free_calls == free0 && B.saved_calls == 0,
			"ec_edit: refuses to leave a modified buffer without '!' and discards nothing");
	} else if (B.pathexp_ret == 0) {
		H_ASSERT(ret == 1 && B.switch_calls == 0 && B.rd_calls == 0, "ec_edit: an unusable path changes nothing");
	} else if ((bang || xwa || !dirty0) && pathbuf[0] && open_at >= 0) {
		/* C20: re-editing an already open path returns to the existing buffer instead of re-reading the file */
		H_ASSERT(B.rd_calls == 0 && g_open_calls == 0, "ec_edit: an already open path is not read again");
		H_ASSERT(B.saved_calls == 0 && g_free_calls == free0 && g_make_calls == 0, "ec_edit: switching to an open buffer neither resets its history nor frees or creates a buffer");
		H_ASSERT(B.switch_calls >= 1 && bufs[0].lb == target, "ec_edit: the buffer reached is the one holding the path");
	} else if ((bang || xwa || !dirty0) && pathbuf[0] && open_at < 0) {
		H_ASSERT(g_make_calls == 1 && B.rd_calls <= 1 && B.saved_calls == 1 && B.saved_slot == slot_of(bufs[0].lb) ,
			"ec_edit: a new path gets a new buffer, read once and marked saved");
	}
#ifdef CANARY
	__CPROVER_assert(0, "canary");
#endif
}


/* ================================================================== addresses (C06, C05) */
int g_jump_ret, g_jump_pos;	/* what lbuf_jump answers for the mark named in this address */
int lbuf_jump(struct lbuf *lb, int mark, int *pos, int *off)
{
	__CPROVER_assert(pos != 0, "lbuf_jump: position pointer is not NULL");
	/* callee contract (lbuf unit lbuf.marks): only a-z ' ` * [ ] ^ name marks; anything else, NUL included, fails */
	if (!((mark >= 'a' && mark <= 'z') || mark == '\'' || mark == '`' || mark == '*' || mark == '[' || mark == ']' || mark == '^'))
		return 1;
	if (g_jump_ret)
		return 1;
	*pos = g_jump_pos;
	if (off)
		*off = 0;
	return 0;
}

int g_search_ret;
/* ex_search as seen by ex_lineno: consumes a delimited pattern inside the string, answers -1 or a line number */
int ex_search_contract(char **pat)
__CPROVER_requires(pat != 0 && *pat != 0 && (long) __CPROVER_POINTER_OFFSET(*pat) < g_sl && (*pat)[0] != 0)
__CPROVER_assigns(*pat, xkwddir, __CPROVER_object_whole(xkwd))
__CPROVER_ensures(__CPROVER_same_object(*pat, __CPROVER_old(*pat)) &&
	(long) __CPROVER_POINTER_OFFSET(*pat) > (long) __CPROVER_POINTER_OFFSET(__CPROVER_old(*pat)) &&
	(long) __CPROVER_POINTER_OFFSET(*pat) <= g_sl)
__CPROVER_ensures(__CPROVER_return_value == g_search_ret)
;

#define MARKCH(c) (((c) >= 'a' && (c) <= 'z') || (c) == '\'' || (c) == '`' || (c) == '*' || (c) == '[' || (c) == ']' || (c) == '^')
/* the value an address denotes: first term, then a chain of +k / -k.
 * One contract, enforced on the real function (unit ex.ex_lineno, g_str == 0: the string is a
 * fresh object) and used by ex_region (g_str = the command line the pointer walks in). */
char *g_str;
#define LN_D ((int) ((unsigned) g_atoi_sum - (unsigned) __CPROVER_old(g_atoi_sum)))
#define EX_LINENO_CLAUSES \
__CPROVER_requires(0 <= g_sl && g_sl <= EXLEN) \
__CPROVER_requires(g_str != 0 || __CPROVER_is_fresh(num, sizeof(char *))) \
__CPROVER_requires(g_str != 0 || __CPROVER_is_fresh(*num, g_sl + 1)) \
__CPROVER_requires(g_str != 0 || (*num)[g_sl] == 0) \
__CPROVER_requires(g_str == 0 || (num != 0 && __CPROVER_same_object(*num, g_str) && (long) __CPROVER_POINTER_OFFSET(*num) >= 0 && \
	(long) __CPROVER_POINTER_OFFSET(*num) <= g_sl && (long) __CPROVER_POINTER_OFFSET(g_str) == 0)) \
__CPROVER_requires(0 <= g_len && g_len <= 0x1000000) \
__CPROVER_requires(-1 <= g_jump_pos && g_jump_pos <= 0x1000000 && -1 <= g_search_ret && g_search_ret < g_len) \
__CPROVER_requires(!g_atoi_fixed) \
__CPROVER_ensures(__CPROVER_same_object(*num, __CPROVER_old(*num)) && \
	(long) __CPROVER_POINTER_OFFSET(*num) >= (long) __CPROVER_POINTER_OFFSET(__CPROVER_old(*num)) && \
	(long) __CPROVER_POINTER_OFFSET(*num) <= g_sl) \
__CPROVER_ensures((__CPROVER_old((*num)[0]) == '\'' && (g_jump_ret || !MARKCH(__CPROVER_old((*num)[1])))) ==> __CPROVER_return_value == -1) \
__CPROVER_ensures(!(__CPROVER_old((*num)[0]) == '\'' && (g_jump_ret || !MARKCH(__CPROVER_old((*num)[1])))) ==> __CPROVER_return_value == ( \
	__CPROVER_old((*num)[0]) == '.' ? (int) ((unsigned) (xrow) + (unsigned) LN_D) : \
	__CPROVER_old((*num)[0]) == '$' ? (int) ((unsigned) (g_len - 1) + (unsigned) LN_D) : \
	__CPROVER_old((*num)[0]) == '\'' ? (int) ((unsigned) (g_jump_pos) + (unsigned) LN_D) : \
	(__CPROVER_old((*num)[0]) == '/' || __CPROVER_old((*num)[0]) == '?') ? (int) ((unsigned) (g_search_ret) + (unsigned) LN_D) : \
	(__CPROVER_old((*num)[0]) >= '0' && __CPROVER_old((*num)[0]) <= '9') ? (int) ((unsigned) LN_D - 1u) : \
	(int) ((unsigned) (xrow) + (unsigned) LN_D)))

int ex_lineno_contract(char **num)
EX_LINENO_CLAUSES
__CPROVER_assigns(*num, g_atoi_sum, g_atoi_first, g_atoi_calls, xkwddir, __CPROVER_object_whole(xkwd))
;

/* the same clauses plus a ghost record of the values returned (for ex_region's value-level clause) */
struct ghost_ln { int last, prev, cnt; } LN;
int ex_lineno_rec_contract(char **num)
EX_LINENO_CLAUSES
__CPROVER_assigns(*num, g_atoi_sum, g_atoi_first, g_atoi_calls, xkwddir, __CPROVER_object_whole(xkwd), LN)
__CPROVER_ensures(LN.last == __CPROVER_return_value && LN.prev == __CPROVER_old(LN.last) && LN.cnt == (__CPROVER_old(LN.cnt) < 100 ? __CPROVER_old(LN.cnt) + 1 : 100))
;

void h_ex_lineno(void)
{
	char **num;
	GHOST_INIT();
	FILE_ENV_HAVOC();
	g_sl = nondet_long();
	xrow = nondet_int();
	g_jump_ret = nondet_bool(); g_jump_pos = nondet_int(); g_search_ret = nondet_int();
	g_atoi_fixed = 0; g_atoi_calls = 0; g_atoi_sum = nondet_int();
	g_str = 0;
	ex_lineno(num);
#ifdef CANARY
	__CPROVER_assert(0, "canary");
#endif
}

/* ---- ex_region: ranges are validated before any command touches lines (C05, C06) ---- */
int ex_region_full_contract(char *loc, int *beg, int *end)
__CPROVER_requires(0 <= g_sl && g_sl <= EXLEN && __CPROVER_is_fresh(loc, g_sl + 1) && loc[g_sl] == 0 && g_str == loc)
__CPROVER_requires(__CPROVER_is_fresh(beg, sizeof(int)) && __CPROVER_is_fresh(end, sizeof(int)))
__CPROVER_requires(0 <= g_len && g_len <= 0x1000000)
/* NO assumption that the current line exists: a stale xrow (e.g. after an undo in ex mode) must be caught here */
__CPROVER_requires(-1 <= g_jump_pos && g_jump_pos <= 0x1000000 && -1 <= g_search_ret && g_search_ret < g_len)
__CPROVER_requires(!g_atoi_fixed && g_atoi_sum == 0)
__CPROVER_requires(LN.cnt == 0)
__CPROVER_assigns(*beg, *end, xrow, g_atoi_sum, g_atoi_first, g_atoi_calls, xkwddir, __CPROVER_object_whole(xkwd), LN)
__CPROVER_ensures(__CPROVER_return_value == 0 || __CPROVER_return_value == 1)
/* success means a range of existing lines (an empty range only as the documented "address 0"/empty-buffer cases) */
__CPROVER_ensures(__CPROVER_return_value == 0 ==> (0 <= *beg && *beg <= *end && *end <= g_len))
__CPROVER_ensures((__CPROVER_return_value == 0 && g_len > 0 && !(*beg == 0 && *end == 0) && *beg != g_len) ==> *beg < g_len)
/* the range is what the addresses say: end = last address + 1, beg = the address before it (or the
 * same one); nothing is silently clamped - only address 0 (-1,0) is read as "before the first line" */
__CPROVER_ensures((__CPROVER_return_value == 0 && LN.cnt >= 1) ==> (*end == LN.last + 1 &&
	(*beg == (LN.cnt == 1 ? LN.last : LN.prev) || ((LN.cnt == 1 ? LN.last : LN.prev) < 0 && *end == 0 && *beg == 0))))
/* % is the whole buffer */
__CPROVER_ensures((g_sl == 1 && __CPROVER_old(loc[0]) == '%') ==> (__CPROVER_return_value == 0 && *beg == 0 && *end == g_len))
/* no address: the current line, first brought back inside the buffer if it was left outside (never rejected: :w must work) */
__CPROVER_ensures(g_sl == 0 ==> (__CPROVER_return_value == 0 && *beg == xrow &&
	xrow == (__CPROVER_old(xrow) < 0 ? 0 : __CPROVER_old(xrow) > g_len ? g_len : __CPROVER_old(xrow)) &&
	*end == (xrow == g_len ? xrow : xrow + 1)))
;

void h_ex_region(void)
{
	char *loc;
	int *beg, *end;
	GHOST_INIT();
	FILE_ENV_HAVOC();
	g_sl = nondet_long();
	xrow = nondet_int();
	g_jump_ret = nondet_bool(); g_jump_pos = nondet_int(); g_search_ret = nondet_int();
	g_atoi_fixed = 0; g_atoi_calls = 0; g_atoi_sum = 0;
	g_str = nondet_ptr();
	LN.cnt = 0; LN.last = nondet_int(); LN.prev = nondet_int();
	ex_region(loc, beg, end);
#ifdef CANARY
	__CPROVER_assert(0, "canary");
#endif
}

/* ================================================================== line commands: one splice of the validated range (C06) */
/* ex_region as seen by the commands: the enforced clause "success => 0 <= beg <= end <= lines"
 * (unit ex.ex_region); the ghost fields only give the outcome a name */
int ex_region_cmd_contract(char *loc, int *beg, int *end)
__CPROVER_requires(loc != 0 && beg != 0 && end != 0)
__CPROVER_assigns(*beg, *end, xrow)
__CPROVER_ensures(__CPROVER_return_value == B.region_ret && *beg == B.region_beg && *end == B.region_end)
;


/* callee contract of lbuf_edit (lbuf unit lbuf.lbuf_edit): clamp, no-op iff empty range and no text, else one splice */
void lbuf_edit(struct lbuf *lb, char *buf, int beg, int end)
{
	__CPROVER_assert(0 <= beg && beg <= end, "lbuf_edit precondition: 0 <= beg <= end");
	X.calls = X.calls < 100 ? X.calls + 1 : 100;
	if (S.line) {
		/* substitute: the rewritten line replaces exactly its own line, lines are visited in increasing order,
		 * only addressed lines are touched, only lines with a match, and the whole line was accounted for */
		__CPROVER_assert(end == beg + 1 && S.beg <= beg && beg < S.end, "ec_substitute: only an addressed line is replaced, by exactly one splice of that line");
		__CPROVER_assert(beg > S.last_edit, "ec_substitute: lines are rewritten in increasing order, each at most once");
		__CPROVER_assert(S.matches >= 1, "ec_substitute: a line without a match is left alone");
		__CPROVER_assert(S.matches == 1 || g_has_g, "ec_substitute: without the g flag (what follows the replacement) only the first match of a line is replaced");
		__CPROVER_assert(S.in_pos == S.L && !S.bad, "ec_substitute: the rewritten line accounts for every byte of the original line (prefixes, matches, tail), in order");
		__CPROVER_assert(buf == g_outbuf, "ec_substitute: the splice text is the string buffer built for this line");
		S.last_edit = beg;
		S.edits = S.edits < 1000 ? S.edits + 1 : 1000;
	}
	X.txt = buf;
	X.beg = beg;
	X.end = end;
	if (beg > g_len)
		beg = g_len;
	if (end > g_len)
		end = g_len;
	if (beg == end && !buf)
		return;
	int ins = nondet_int();	/* number of lines of buf (0 iff NULL or empty) */
	__CPROVER_assume(0 <= ins && ins <= 0x1000000 && (buf != 0 || ins == 0));
	__CPROVER_assume(!S.line || ins >= 1);	/* a rewritten line keeps its final newline: at least one line */
	g_len = g_len - (end - beg) + ins;
	__CPROVER_assume(g_len <= 0x1000000);
}

char *reg_get(int c, int *lnmode)
{
	__CPROVER_assert(c >= 0 && c < 256, "reg_get: register index in [0,256)");
	if (lnmode)
		*lnmode = nondet_int();
	return X.reg_buf;
}

#define LINE_ENV_HAVOC() do { X.calls = 0; X.txt = 0; X.beg = X.end = -7; X.len0 = g_len; X.yank_calls = 0; X.mark_calls = 0; \
	X.cp_calls = 0; X.print_lines = 0; X.reg_buf = nondet_bool() ? g_regtxt : (char *) 0; } while (0)
char g_regtxt[2];

void h_ec_insert(void)
{
	char loc[2], cmd[19], arg[2], txt[2];
	GHOST_INIT();
	FILE_ENV_HAVOC();
	BUFS_HAVOC();
	LINE_ENV_HAVOC();
	CMD_HAVOC(cmd);
	loc[0] = nondet_char(); loc[1] = 0; arg[0] = 0; txt[0] = nondet_char(); txt[1] = 0;
	__CPROVER_assume(bufs[0].lb != 0);
	__CPROVER_assume(cmd[0] == 'a' || cmd[0] == 'i' || cmd[0] == 'c');
	int rb = B.region_beg, re = B.region_end, rr = B.region_ret;
	/* on failure ex_region leaves what it parsed: any pair */
	if (rr) { B.region_beg = nondet_int(); B.region_end = nondet_int(); rb = B.region_beg; re = B.region_end; }
	int ret = ec_insert(loc, cmd, arg, txt);
	if (rr && !(rb == 0 && re == 0)) {
		H_ASSERT(ret == 1 && X.calls == 0, "ec_insert: an address that does not resolve is rejected with the buffer unchanged");
	} else {
		int p = cmd[0] == 'a' ? re : rb;
		int q = cmd[0] == 'c' ? re : p;
		H_ASSERT(ret == 0 && X.calls == 1 && X.txt == txt, "ec_insert: exactly one splice, of the text given");
		H_ASSERT(X.beg == p && X.end == q, "ec_insert: append after the last addressed line, insert before the first, change replaces exactly the range (address 0 = before the first line)");
		H_ASSERT(xrow == (g_len - 1 < q + g_len - X.len0 - 1 ? g_len - 1 : q + g_len - X.len0 - 1), "ec_insert: the current line becomes the last line of the inserted text");
	}
#ifdef CANARY
	__CPROVER_assert(0, "canary");
#endif
}

/* yank helper: lbuf_cp + reg_put (stubs record) */
void h_ec_delete_yank(void)
{
	char loc[2], cmd[19], arg[2];
	GHOST_INIT();
	FILE_ENV_HAVOC();
	BUFS_HAVOC();
	LINE_ENV_HAVOC();
	CMD_HAVOC(cmd);
	loc[0] = nondet_char(); loc[1] = 0; arg[0] = nondet_char(); arg[1] = 0;
	__CPROVER_assume(bufs[0].lb != 0);
	int rb = B.region_beg, re = B.region_end, rr = B.region_ret;
	int is_del = nondet_bool();
	int puts0 = B.regput_calls;
	int ret = is_del ? ec_delete(loc, cmd, arg, 0) : ec_yank(loc, cmd, arg, 0);
	if (rr || X.len0 == 0) {
		H_ASSERT(ret == 1 && X.calls == 0 && B.regput_calls == puts0, "ec_delete/ec_yank: an address that does not resolve is rejected, buffer and registers unchanged");
	} else {
		H_ASSERT(ret == 0 && B.regput_calls == puts0 + 1, "ec_delete/ec_yank: the addressed lines go to the register once");
		if (is_del) {
			H_ASSERT(X.calls == 1 && X.txt == 0 && X.beg == rb && X.end == re, "ec_delete: exactly one splice removing exactly the addressed range");
			H_ASSERT(xrow == rb, "ec_delete: the current line is the line after the deleted range");
		} else {
			H_ASSERT(X.calls == 0, "ec_yank: never changes the buffer");
		}
	}
#ifdef CANARY
	__CPROVER_assert(0, "canary");
#endif
}

void h_ec_put(void)
{
	char loc[2], cmd[19], arg[2];
	GHOST_INIT();
	FILE_ENV_HAVOC();
	BUFS_HAVOC();
	LINE_ENV_HAVOC();
	CMD_HAVOC(cmd);
	loc[0] = nondet_char(); loc[1] = 0; arg[0] = nondet_char(); arg[1] = 0;
	__CPROVER_assume(bufs[0].lb != 0);
	int rb = B.region_beg, re = B.region_end, rr = B.region_ret;
	int ret = ec_put(loc, cmd, arg, 0);
	if (rr || !X.reg_buf) {
		H_ASSERT(ret == 1 && X.calls == 0, "ec_put: an empty register or an address that does not resolve is rejected with the buffer unchanged");
	} else {
		H_ASSERT(ret == 0 && X.calls == 1 && X.txt == X.reg_buf && X.beg == re && X.end == re, "ec_put: the register text is inserted after the last addressed line, nothing is removed");
		H_ASSERT(xrow == (g_len - 1 < re + g_len - X.len0 - 1 ? g_len - 1 : re + g_len - X.len0 - 1), "ec_put: the current line becomes the last line put");
	}
#ifdef CANARY
	__CPROVER_assert(0, "canary");
#endif
}

void lbuf_mark(struct lbuf *lb, int mark, int pos, int off)
{
	X.mark_calls++;
	X.mark = mark;
	X.mark_pos = pos;
}

void h_ec_mark_lnum(void)
{
	char loc[2], cmd[19], arg[2];
	GHOST_INIT();
	FILE_ENV_HAVOC();
	BUFS_HAVOC();
	LINE_ENV_HAVOC();
	CMD_HAVOC(cmd);
	loc[0] = nondet_char(); loc[1] = 0; arg[0] = nondet_char(); arg[1] = 0;
	__CPROVER_assume(bufs[0].lb != 0);
	int rb = B.region_beg, re = B.region_end, rr = B.region_ret;
	int prints0 = B.print_calls;
	if (nondet_bool()) {
		int ret = ec_mark(loc, cmd, arg, 0);
		if (rr)
			H_ASSERT(ret == 1 && X.mark_calls == 0, "ec_mark: an address that does not resolve sets no mark");
		else
			H_ASSERT(ret == 0 && X.mark_calls == 1 && X.mark == (unsigned char) arg[0] && X.mark_pos == re - 1, "ec_mark: marks the last addressed line");
	} else {
		int ret = ec_lnum(loc, cmd, arg, 0);
		H_ASSERT(rr ? (ret == 1 && B.print_calls == prints0) : (ret == 0 && B.print_calls == prints0 + 1), "ec_lnum: prints once for a valid address, nothing otherwise");
	}
	H_ASSERT(X.calls == 0, "ec_mark/ec_lnum: never change the buffer");
#ifdef CANARY
	__CPROVER_assert(0, "canary");
#endif
}

/* ================================================================== substitute (C14) */
/* Position discipline: every byte of the line is either copied verbatim, in order, or belongs to
 * a match that is replaced.  S.in_pos is how far the original line has been accounted for. */
#define SUB_ISCONT(b)	(((b) & 0xc0) == 0x80)
struct sbuf { int dummy; };
static struct sbuf g_sbuf;
static struct rstr { int dummy; } g_rstr;

struct sbuf *sbuf_make(void)
{
	S.sb_live = S.sb_live < 1000 ? S.sb_live + 1 : 1000;
	S.sb_made = S.sb_made < 1000 ? S.sb_made + 1 : 1000;
	return &g_sbuf;
}
void sbuf_free(struct sbuf *sb)
{
	__CPROVER_assert(sb == &g_sbuf && S.sb_live > 0, "sbuf_free: frees a live string buffer");
	S.sb_live--;
	S.sb_freed = S.sb_freed < 1000 ? S.sb_freed + 1 : 1000;
}
char *sbuf_buf(struct sbuf *sb)
{
	__CPROVER_assert(sb == &g_sbuf, "sbuf_buf: a live string buffer");
	return g_outbuf;
}
/* verbatim copy of n bytes of the line: must continue exactly where the accounting stands */
void sbuf_mem(struct sbuf *sb, char *s, int len)
{
	__CPROVER_assert(sb == &g_sbuf && len >= 0, "sbuf_mem: live buffer, non-negative length");
#ifndef UNIT_SUBST	/* the substitute unit accounts for positions instead (cheaper) */
	__CPROVER_assert(len == 0 || __CPROVER_r_ok(s, len), "sbuf_mem: source readable for len bytes");
	if (R.on) {
		/* loop-free (locals of a callee cannot be loop-assigned): at most 8 bytes are recorded */
#define RREC_(k) if ((k) < len && R.n >= 0 && R.n < 24) { R.out[R.n] = s[k]; R.n = R.n + 1; }
		RREC_(0) RREC_(1) RREC_(2) RREC_(3) RREC_(4) RREC_(5) RREC_(6) RREC_(7)
#undef RREC_
	}
#endif
	if (S.line && __CPROVER_same_object(s, S.line)) {
		if ((long) __CPROVER_POINTER_OFFSET(s) != S.in_pos || S.in_pos + len > S.L)
			S.bad = 1;
		if (S.expect_char) {
			__CPROVER_assert(S.in_pos < S.L && len >= 1 && S.in_pos + len <= S.L && !SUB_ISCONT((unsigned char) S.line[S.in_pos + len]),
				"ec_substitute: after an empty match the scan advances by one whole character (valid UTF-8 stays valid)");
			S.expect_char = 0;
		}
		S.in_pos += len;
	}
}
void sbuf_chr(struct sbuf *sb, int c)
{
	__CPROVER_assert(sb == &g_sbuf, "sbuf_chr: live buffer");
#ifndef UNIT_SUBST
	if (R.on && R.n >= 0 && R.n < 24) {
		R.out[R.n] = (char) c;
		R.n = R.n + 1;
	}
#endif
	/* in ec_substitute a single character is only ever appended as the verbatim copy of the next line byte */
	if (S.line) {
		if (S.in_pos >= S.L || (unsigned char) S.line[S.in_pos] != (unsigned char) c)
			S.bad = 1;
		if (S.expect_char) {
			__CPROVER_assert(S.in_pos < S.L && !SUB_ISCONT((unsigned char) S.line[S.in_pos + 1]),
				"ec_substitute: after an empty match the scan advances by one whole character (valid UTF-8 stays valid)");
			S.expect_char = 0;
		}
		S.in_pos += 1;
	}
}
void sbuf_str(struct sbuf *sb, char *s)
{
	__CPROVER_assert(sb == &g_sbuf && s != 0, "sbuf_str: live buffer, non-NULL string");
	if (S.line && __CPROVER_same_object(s, S.line)) {
		if ((long) __CPROVER_POINTER_OFFSET(s) != S.in_pos)
			S.bad = 1;
		S.in_pos = S.L;	/* the rest of the line */
	}
}

/* replace() as seen by the scan loop: expands the replacement for the match at ln+offs[0] .. ln+offs[1] */
void replace_contract(struct sbuf *dst, char *rep, char *ln, int *offs)
__CPROVER_requires(dst == &g_sbuf && rep != 0 && ln != 0 && offs != 0)
__CPROVER_requires(S.line != 0 && __CPROVER_same_object(ln, S.line) && 0 <= S.in_pos && S.in_pos <= S.L && 0 <= S.mlen && S.mlen <= S.L)
__CPROVER_assigns(S.in_pos, S.bad, S.matches, S.expect_char)
__CPROVER_ensures(S.expect_char == (offs[1] <= 0))
__CPROVER_ensures(S.in_pos == __CPROVER_old(S.in_pos) + S.mlen)
__CPROVER_ensures(S.bad == (__CPROVER_old(S.bad) || (long) __CPROVER_POINTER_OFFSET(ln) + offs[0] != __CPROVER_old(S.in_pos)))
__CPROVER_ensures(S.matches == (__CPROVER_old(S.matches) < 1000000000 ? __CPROVER_old(S.matches) + 1 : 1000000000))
;

/* lbuf_get in this unit: every row of the range holds the ghost line S.line - a newline-terminated
 * line of arbitrary length and content allocated by the harness (the per-line logic carries no
 * state from one row to the next, so one arbitrary line stands for each of them) */
char *g_subline;
#ifndef UNIT_GLOB
char *lbuf_get(struct lbuf *lb, int pos)
{
	if (pos < 0 || pos >= g_len)
		return 0;
	S.line = g_subline;
	S.in_pos = 0;
	S.finds = 0;
	S.matches = 0;
	S.expect_char = 0;
	S.mlen = 0;
	S.lines_seen = S.lines_seen < 1000000000 ? S.lines_seen + 1 : 1000000000;
	return g_subline;
}
#endif

/* callee contract of uc_next (units uc.codec / uc.window): stays at the NUL; otherwise moves at least
 * one byte forward to a byte that is not a continuation byte, never past the terminator
 * (over-approximation: which of those bytes is not pinned down here) */
char *uc_next(char *s)
{
	if (s[0] == 0)
		return s;
	long k = nondet_long();
	__CPROVER_assume(k >= 1 && k <= 0x7ffffff0L);
	__CPROVER_assume(__CPROVER_r_ok(s, k + 1));
	__CPROVER_assume(!SUB_ISCONT((unsigned char) s[k]) && ((unsigned char) s[0] >= 0xc0 || SUB_ISCONT((unsigned char) s[0]) || k == 1));
	return s + k;
}

struct rstr *rstr_make(char *re, int flg)
{
	__CPROVER_assert(re != 0, "rstr_make: pattern is not NULL");
	return S.re_ok ? &g_rstr : (struct rstr *) 0;
}
void rstr_free(struct rstr *rs)
{
	__CPROVER_assert(rs == &g_rstr, "rstr_free: the compiled pattern");
}
/* callee contract of rstr_find (units rstr.*, later regex units): -1, or 0 with
 * 0 <= offs[0] <= offs[1] <= strlen(s) minus the newline, groups -1 or inside the match's line */
int rstr_find(struct rstr *rs, char *s, int n, int *grps, int flg)
{
	__CPROVER_assert(rs == &g_rstr && s != 0, "rstr_find: compiled pattern and a line");
	if (S.line && __CPROVER_same_object(s, S.line)) {
		long off = __CPROVER_POINTER_OFFSET(s);
		__CPROVER_assert(0 <= off && off <= S.L, "rstr_find: the scan point is inside the line");
		/* a stored line is a C string: no NUL before its end (LINE_OK, instantiated at the scan point) */
		__CPROVER_assume(s[0] != 0 || off == S.L);
		/* C14: a line-start anchor matches only at the true line start: rescans say so */
		__CPROVER_assert(off == 0 ? !(flg & RE_NOTBOL) : (flg & RE_NOTBOL) != 0, "ec_substitute: rescans after the first match are flagged not-at-line-start");
		S.finds = S.finds < 1000 ? S.finds + 1 : 1000;
		if (nondet_bool())
			return -1;
		__CPROVER_assert(n == 16 && grps != 0, "rstr_find: room for 16 group spans");
		long so = nondet_long(), eo = nondet_long();
		__CPROVER_assume(0 <= so && so <= eo && eo <= S.L - 1 - off);
		grps[0] = (int) so;
		grps[1] = (int) eo;
		S.mlen = eo - so;
		return 0;
	}
	return nondet_bool() ? -1 : 0;
}

char *re_read(char **src)
{
	__CPROVER_assert(src != 0 && *src != 0, "re_read: source pointer");
	if (**src == 0)
		return 0;
	/* consumes the delimiter and at least nothing more: lands inside the string, after the start */
	long off = __CPROVER_POINTER_OFFSET(*src), k = nondet_long();
	__CPROVER_assume(off < k && k <= g_sl);
	*src = *src - off + k;
	g_flags = *src;
	g_has_g = verif_strchr(g_flags, 'g') != 0;
	char *r = malloc(2);
	r[0] = nondet_char();
	r[1] = 0;
	return r;
}

/* invariant of the per-line scan loop */
#pragma CPROVER check push
#pragma CPROVER check disable "pointer"
#pragma CPROVER check disable "pointer-primitive"
#pragma CPROVER check disable "signed-overflow"
_Bool inv_sub_inner(char *ln, struct sbuf *r)
{
	if (!S.line || !__CPROVER_same_object(ln, S.line))
		return 0;
	long off = __CPROVER_POINTER_OFFSET(ln);
	if (off < 0 || off > S.L || S.L < 1 || S.L > 0x7ffffff0L)
		return 0;
	if (S.bad || S.expect_char || S.in_pos != off)
		return 0;		/* everything before the scan point is accounted for, in order */
	if (S.matches < 0 || S.matches > 1000000000 || S.finds < 0 || S.finds > 1000 || S.mlen < 0 || S.mlen > S.L)
		return 0;
	if (r == 0)
		return S.sb_live == 0 && S.matches == 0 && off == 0;
	return r == &g_sbuf && S.sb_live == 1 && S.matches >= 1;
}
#pragma CPROVER check pop

int ec_substitute_frame_contract(char *loc, char *cmd, char *arg, char *txt)
__CPROVER_requires(loc != 0 && cmd != 0 && arg != 0)
__CPROVER_assigns(S, X, g_len, xrow, g_flags, g_has_g, xkwddir, __CPROVER_object_whole(xkwd), __CPROVER_object_whole(xrep))
;

void h_ec_substitute(void)
{
	char loc[2], cmd[19], *arg;
	GHOST_INIT();
	FILE_ENV_HAVOC();
	BUFS_HAVOC();
	LINE_ENV_HAVOC();
	CMD_HAVOC(cmd);
	loc[0] = nondet_char(); loc[1] = 0;
	g_sl = nondet_long();
	__CPROVER_assume(0 <= g_sl && g_sl <= 20);	/* flags after the replacement: a short string (exact strchr) */
	arg = malloc(g_sl + 1);
	arg[g_sl] = 0;
	__CPROVER_assume(bufs[0].lb != 0);
	S.L = nondet_long();
	__CPROVER_assume(1 <= S.L && S.L <= 0x7ffffff0L);
	g_subline = malloc(S.L + 1);
	__CPROVER_assume(g_subline[S.L - 1] == '\n' && g_subline[S.L] == 0);
	__CPROVER_assume(g_mk >= (unsigned long) (S.L - 1) || (g_subline[g_mk] != 0 && g_subline[g_mk] != '\n'));
	R.on = 0; R.n = 0;
	S.line = 0; S.bad = 0; S.sb_live = 0; S.sb_made = 0; S.sb_freed = 0; S.edits = 0; S.last_edit = -1; S.lines_seen = 0;
	S.re_ok = nondet_bool(); S.rep_calls = 0; S.expect_char = 0; g_flags = 0; S.finds = 0; S.matches = 0; S.in_pos = 0;
	S.beg = B.region_beg; S.end = B.region_end;
	xkwddir = nondet_int();
	int rr = B.region_ret;
	int ret = ec_substitute(loc, cmd, arg, 0);
	if (rr)
		H_ASSERT(ret == 1 && S.edits == 0 && S.lines_seen == 0, "ec_substitute: an address that does not resolve is rejected with the buffer unchanged");
	H_ASSERT(S.sb_live == 0, "ec_substitute: every string buffer made is freed");
	H_ASSERT(!S.bad, "ec_substitute: the output is the line with matches replaced: every other byte copied verbatim, in order");
	H_ASSERT(S.edits <= S.lines_seen, "ec_substitute: at most one splice per addressed line");
#ifdef CANARY
	__CPROVER_assert(0, "canary");
#endif
}


/* ---- replace(): the replacement expansion (C14) ---- */
/* BOUNDED functional check: every replacement of at most 4 bytes over all byte values, a 6-byte
 * line, every assignment of group spans (set inside the line, or unset) */
void h_replace_bounded(void)
{
	char rep[5], ln[7];
	int offs[32], i, n = nondet_int();
	GHOST_INIT();
	S.line = 0;
	__CPROVER_assume(0 <= n && n <= 4);
	for (i = 0; i < 5; i++) {
		rep[i] = nondet_char();
		__CPROVER_assume(i >= n || rep[i] != 0);
	}
	rep[n] = 0;
	for (i = 0; i < 7; i++)
		ln[i] = nondet_char();
	ln[6] = 0;
	for (i = 0; i < 16; i++) {
		int so = nondet_int(), eo = nondet_int();
		__CPROVER_assume((so == -1 && eo == -1) || (0 <= so && so <= eo && eo <= 6));
		offs[2 * i] = so;
		offs[2 * i + 1] = eo;
	}
	R.on = 1;
	R.n = 0;
	replace(&g_sbuf, rep, ln, offs);
	/* reference expansion, written from the statement */
	char want[24];
	int wn = 0, p = 0, k;
	while (p < n) {
		if (rep[p] == '\\' && p + 1 < n) {
			char c = rep[p + 1];
			if (c >= '0' && c <= '9') {
				int g = c - '0';
				if (offs[2 * g] >= 0)	/* a group that did not take part expands to nothing */
					for (k = offs[2 * g]; k < offs[2 * g + 1]; k++)
						want[wn++] = ln[k];
			} else {
				want[wn++] = c;		/* \c stands for c */
			}
			p += 2;
		} else {
			want[wn++] = rep[p];
			p += 1;
		}
	}
	H_ASSERT(R.n == wn, "replace: the expansion has the length the statement gives (\\0-\\9 group text, empty when unset; \\c = c)");
	for (k = 0; k < 24; k++)
		if (k < wn)
			H_ASSERT(R.out[k] == want[k], "replace: the expansion is byte for byte what the statement gives");
#ifdef CANARY
	__CPROVER_assert(0, "canary");
#endif
}

/* unbounded safety: any replacement length, any line, valid group spans */
long g_replen, g_linelen;
void replace_safe_contract(struct sbuf *dst, char *rep, char *ln, int *offs)
__CPROVER_requires(dst == &g_sbuf)
__CPROVER_requires(0 <= g_replen && g_replen <= EXLEN && __CPROVER_is_fresh(rep, g_replen + 1) && rep[g_replen] == 0)
__CPROVER_requires(0 <= g_linelen && g_linelen <= 0x7ffffff0L && __CPROVER_is_fresh(ln, g_linelen + 1) && ln[g_linelen] == 0)
__CPROVER_requires(__CPROVER_is_fresh(offs, sizeof(int) * 32))
/* what rstr_find guarantees (units rstr.rstr_find, rset_find): each of the ten spans that a
 * replacement can name is unset (-1,-1) or lies inside the line */
#define SPAN_OK(g) ((offs[2 * (g)] == -1 && offs[2 * (g) + 1] == -1) || (0 <= offs[2 * (g)] && offs[2 * (g)] <= offs[2 * (g) + 1] && offs[2 * (g) + 1] <= g_linelen))
__CPROVER_requires(SPAN_OK(0) && SPAN_OK(1) && SPAN_OK(2) && SPAN_OK(3) && SPAN_OK(4) && SPAN_OK(5) && SPAN_OK(6) && SPAN_OK(7) && SPAN_OK(8) && SPAN_OK(9))
__CPROVER_requires(g_sl == g_replen)
__CPROVER_assigns(R, S.in_pos, S.bad, S.expect_char)
;

void h_replace_safe(void)
{
	char *rep, *ln;
	int *offs;
	GHOST_INIT();
	S.line = 0; R.on = 0;
	g_k = nondet_int();
	g_replen = nondet_long(); g_linelen = nondet_long(); g_sl = nondet_long();
	replace(&g_sbuf, rep, ln, offs);
#ifdef CANARY
	__CPROVER_assert(0, "canary");
#endif
}

/* ================================================================== global (C15) */
/* One witness line, tracked through arbitrary splices made by the executed command list.
 * kind: 0 = original line of the range after the first (gets marked), 1 = the first line of the
 * range (visited first, never marked), 2 = original line outside the range, 3 = a line that a
 * command execution inserts (not alive at the start). */

/* callee contracts of the glob accessors (unit lbuf.glob): bit dep of one line only */
void lbuf_globset(struct lbuf *lb, int pos, int dep)
{
	__CPROVER_assert(0 <= pos && pos < g_len && 1 <= dep && dep <= 7, "lbuf_globset precondition: existing line, depth 1..7 (a bit of a char)");
	if (GW.alive && pos == GW.pos && dep == GW.dep)
		GW.marked = 1;
	GW.sets = GW.sets < 1000000000 ? GW.sets + 1 : 1000000000;
}
int lbuf_globget(struct lbuf *lb, int pos, int dep)
{
	__CPROVER_assert(0 <= pos && pos < g_len && 1 <= dep && dep <= 7, "lbuf_globget precondition: existing line, depth 1..7");
	if (GW.alive && pos == GW.pos && dep == GW.dep) {
		int m = GW.marked;
		GW.marked = 0;
		return m;
	}
	return nondet_bool();	/* some other line: marked or not */
}

/* EXEC_OK: the class of command lists of the property (delete, substitute, put, a/i/c with text,
 * relative-address commands, nested global).  They splice the current buffer arbitrarily; the
 * mark of a surviving line travels with it (lbuf_replace's glob clause), inserted lines carry no
 * mark, a nested global works on depth dep+1 and clears its own bits; the current line ends at or
 * before every line whose index changed (ec_delete, ec_insert, ec_put units); no sequence bump. */
int ex_exec_glob_contract(char *ln)
__CPROVER_requires(ln != 0)
__CPROVER_requires(xrow == GW.last_get)	/* the command list runs with the line just tested as the current line */
__CPROVER_assigns(g_len, xrow, xoff, GW.alive, GW.pos, GW.execs, GW.broke, GW.any_exec, E, X, B.show_calls, B.print_calls, B.regput_calls)
__CPROVER_ensures(0 <= g_len && g_len <= 0x1000000 && -1 <= xrow && xrow <= g_len)
__CPROVER_ensures(GW.execs == __CPROVER_old(GW.execs) + ((__CPROVER_old(GW.alive) && __CPROVER_old(GW.pos) == __CPROVER_old(xrow)) ? 1 : 0))
__CPROVER_ensures((GW.alive == 0 || GW.alive == 1) && (GW.alive ==> (0 <= GW.pos && GW.pos < g_len)))
/* an original line does not come back once deleted; an inserted line may appear (unmarked) */
__CPROVER_ensures((!__CPROVER_old(GW.alive) && GW.alive) ==> (GW.kind == 3 && !GW.marked))
__CPROVER_ensures((__CPROVER_old(GW.alive) && GW.alive && GW.pos != __CPROVER_old(GW.pos)) ==> xrow <= GW.pos)
__CPROVER_ensures((!__CPROVER_old(GW.alive) && GW.alive) ==> xrow <= GW.pos + 0x1000000)
__CPROVER_ensures(GW.broke == (__CPROVER_old(GW.broke) || __CPROVER_return_value != 0))
__CPROVER_ensures(GW.any_exec == 1)
;

struct lbuf *g_glob_lb;
char g_globline[2];
#ifdef UNIT_GLOB
char *lbuf_get(struct lbuf *lb, int pos)
{
	if (pos < 0 || pos >= g_len)
		return 0;
	GW.last_get = pos;
	if (GW.alive && pos == GW.pos)
		GW.tested = GW.tested < 1000 ? GW.tested + 1 : 1000;
	return g_globline;
}
#endif

void h_ec_glob(void)
{
	char loc[3], cmd[19], *arg;
	GHOST_INIT();
	FILE_ENV_HAVOC();
	BUFS_HAVOC();
	LINE_ENV_HAVOC();
	CMD_HAVOC(cmd);
	loc[0] = nondet_char(); loc[1] = 0; loc[2] = 0;
	g_sl = nondet_long();
	__CPROVER_assume(0 <= g_sl && g_sl <= 20);
	arg = malloc(g_sl + 1);
	arg[g_sl] = 0;
	__CPROVER_assume(bufs[0].lb != 0);
	S.re_ok = nondet_bool();
	xkwddir = nondet_int();
	xgdep = nondet_int();
	__CPROVER_assume(0 <= xgdep && xgdep <= 6);	/* nesting depth below 7: the mark is a bit of a char (deeper nesting: finding F14) */
	int dep0 = xgdep;
	GW.dep = xgdep + 1;
	GW.kind = nondet_int(); GW.pos = nondet_int();
	__CPROVER_assume(0 <= GW.kind && GW.kind <= 3);
	int rb = B.region_beg, re = B.region_end, rr = B.region_ret;
	GW.alive = GW.kind != 3;
	__CPROVER_assume(!GW.alive || (0 <= GW.pos && GW.pos < g_len));
	__CPROVER_assume(GW.kind != 0 || (rb < GW.pos && GW.pos < re));
	__CPROVER_assume(GW.kind != 1 || GW.pos == rb);
	__CPROVER_assume(GW.kind != 2 || (GW.pos < rb || GW.pos >= re));
	GW.marked = 0; GW.tested = 0; GW.execs = 0; GW.last_get = -5; GW.broke = 0; GW.sets = 0; GW.any_exec = 0;
	/* known finding F20: with an empty range on a non-empty buffer (address 0) the first line is still tested */
#ifdef KF_EXCLUDE_F20
	__CPROVER_assume(rr || rb < re || rb >= g_len);
#endif
#ifdef KF_ONLY_F20
	__CPROVER_assume(!rr && rb == re && rb < g_len && GW.kind == 2 && GW.pos == rb);
#endif
	int mods0 = B.mod_calls;
	int ret = ec_glob(loc, cmd, arg, 0);
	if (rr) {
		H_ASSERT(ret == 1 && GW.tested == 0 && !GW.any_exec, "ec_glob: an address that does not resolve is rejected, nothing runs");
	}
	H_ASSERT(xgdep == dep0, "ec_glob: the nesting depth is restored");
	H_ASSERT(B.mod_calls == mods0, "ec_glob: no sequence bump inside the global: all its edits form one undo step");
	H_ASSERT(GW.tested <= 1 && GW.execs <= 1, "ec_glob: a line is visited at most once");
	H_ASSERT(GW.execs <= GW.tested, "ec_glob: the command list runs on a line only when that line was just tested");
	if (GW.kind >= 2)
		H_ASSERT(GW.tested == 0, "ec_glob: lines outside the range and lines inserted by the command list are never visited");
	if (!rr && S.re_ok && ret == 0 && !GW.broke && GW.kind <= 1 && GW.alive && rb < re)
		H_ASSERT(GW.tested == 1, "ec_glob: every line of the original range that still exists is visited (none skipped)");
	if (GW.alive && ret == 0)
		H_ASSERT(!GW.marked, "ec_glob: all marks of this depth are cleared on exit");
#ifdef CANARY
	__CPROVER_assert(0, "canary");
#endif
}

/* ================================================================== bufs_shift: ":b !" deletes the current buffer (C20) */
void bufs_shift_frame_contract(void)
__CPROVER_requires(0 <= g_free_calls && g_free_calls < 1000)
__CPROVER_assigns(__CPROVER_object_whole(bufs), xrow, xoff, xtop, xleft, xtd, B.regput_calls, g_free_calls, g_free_last)
__CPROVER_frees(bufs[0].path)
;
void h_bufs_shift(void)
{
	int k;
	GHOST_INIT();
	FILE_ENV_HAVOC();
	BUFS_HAVOC();
	g_k = nondet_int();
	__CPROVER_assume(0 <= g_k && g_k < 15);
	for (k = 0; k < 16; k++) {
		bufs[k].ft[0] = nondet_char();
		bufs[k].ft[31] = nondet_char();
		g_old[k] = bufs[k];
	}
	g_free_calls = 0; g_free_last = 0;
	int cnt0 = bufs_cnt;
	bufs_shift();
	/* exactly the current buffer is released, every other open buffer keeps its text, file, id and position and moves up one slot */
	H_ASSERT(g_old[0].lb ? (g_free_calls == 1 && g_free_last == g_old[0].lb) : g_free_calls == 0, "bufs_shift: the current buffer, and only it, is released");
	H_ASSERT(SAMEBUF(bufs[g_k], g_old[g_k + 1]), "bufs_shift: every other slot moves up by one, keeping its text, position, file and id");
	H_ASSERT(bufs[15].lb == 0 && bufs[15].path == 0, "bufs_shift: the last slot becomes free");
	H_ASSERT(xrow == g_old[1].row && xoff == g_old[1].off && xtop == g_old[1].top && xleft == g_old[1].left && xtd == g_old[1].td, "bufs_shift: cursor and window of the buffer that becomes current are restored");
	H_ASSERT(bufs_cnt == cnt0, "bufs_shift: the id counter is not wound back (ids handed out later stay distinct from those of open buffers)");
	H_ASSERT(B.mod_calls == 0 && B.saved_calls == 0 && B.rd_calls == 0, "bufs_shift: no other buffer's dirty state or text is consulted or changed");
#ifdef CANARY
	__CPROVER_assert(0, "canary");
#endif
}


/* ================================================================== ec_read: ":r file" (C01 read side, C06) */
int ec_read_frame_contract(char *loc, char *cmd, char *arg, char *txt)
__CPROVER_requires(loc != 0 && cmd != 0 && arg != 0)
__CPROVER_assigns(E, B, X, S, GW, g_rd_beg, g_rd_end, g_rd_fd, g_rd_ret, loc[0], loc[1], __CPROVER_object_whole(bufs), xrow, xoff, g_len)
;
void h_ec_read(void)
{
	char loc[2], cmd[19], arg[2];
	char pathbuf[2];
	GHOST_INIT();
	FILE_ENV_HAVOC();
	BUFS_HAVOC();
	LINE_ENV_HAVOC();
	CMD_HAVOC(cmd);
	loc[0] = nondet_char(); loc[1] = 0;
	arg[0] = nondet_char(); arg[1] = 0;
	pathbuf[0] = nondet_char(); pathbuf[1] = 0;
	B.pathexp_ret = nondet_bool() ? pathbuf : (char *) 0;
	__CPROVER_assume(bufs[0].lb != 0);
	char *path = arg[0] ? B.pathexp_ret : bufs[0].path;
	int len0 = g_len, row0 = xrow;
	int rb = B.region_beg, re = B.region_end, rr = B.region_ret;
	g_rd_beg = g_rd_end = -7;
	int ret = ec_read(loc, cmd, arg, 0);
	if (rr || !path) {
		H_ASSERT(ret == 1 && B.rd_calls == 0 && X.calls == 0 && g_len == len0, "ec_read: an address that does not resolve or a path that does not expand is rejected with the buffer unchanged");
	} else if (path[0] == '!') {
		H_ASSERT(B.rd_calls == 0 && g_open_calls == 0, "ec_read: ':r !cmd' reads a command, never a file");
	} else if (!g_open_ok) {
		H_ASSERT(ret == 1 && B.rd_calls == 0 && g_len == len0, "ec_read: a file that cannot be opened fails the command, buffer unchanged");
	} else {
		int pos = len0 ? re : 0;
		H_ASSERT(B.rd_calls == 1 && g_rd_fd == g_open_fd && g_rd_beg == pos && g_rd_end == pos, "ec_read: the file is read in after the last addressed line (at the top of an empty buffer), replacing nothing");
		H_ASSERT(g_close_calls == 1, "ec_read: the file is closed, also after a failed read");
		if (g_rd_ret)
			H_ASSERT(ret == 1 && g_len == len0, "ec_read: a read error fails the command with the buffer unchanged");
		else
			H_ASSERT(ret == 0 && xrow == re + (g_len - len0) - 1, "ec_read: the current line becomes the last line read");
	}
#ifdef CANARY
	__CPROVER_assert(0, "canary");
#endif
}
