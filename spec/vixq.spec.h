/* vc_execute: "@r executes register r as typed keys", "@@" the register used last, "N@r" N times (C09) */
int xrow, xoff;
struct ghost_xq_in { int k1, k2, has_reg; long len; int round; } XQ;	/* constants of one call */
struct ghost_xq { int reads, pushes, bad, get_calls, get_reg; } XV;
static char g_xqreg[2];
static long strlen_hook(const char *s) { return s == g_xqreg ? XQ.len : -1; }
static int vi_read(void)
{
	XV.reads++;
	return XV.reads == 1 ? XQ.k1 : XQ.k2;
}
char *reg_get(int c, int *ln)
{
	XV.get_calls++;
	XV.get_reg = c;
	if (ln)
		*ln = nondet_int();
	return XQ.has_reg ? g_xqreg : (char *) 0;
}
void term_push(char *s, int n)
{
	if (s != g_xqreg || n != XQ.len)
		XV.bad = 1;
	XV.pushes = XV.pushes < 0x7ffffff0 ? XV.pushes + 1 : XV.pushes;
}
void vc_execute_frame_contract(void)
__CPROVER_assigns(XV)
;
static void one_call(int k1, int k2)
{
	XQ.k1 = k1; XQ.k2 = k2;
	XV.reads = XV.pushes = XV.bad = XV.get_calls = 0; XV.get_reg = -7;
	vc_execute();
}
void h_vc_execute(void)
{
	int k1 = nondet_int(), k2 = nondet_int(), k3 = nondet_int();
	GHOST_INIT();
	XQ.has_reg = nondet_bool(); XQ.len = nondet_long();
	__CPROVER_assume(0 <= XQ.len && XQ.len <= 0x100000);
	vi_arg1 = nondet_int();
	__CPROVER_assume(0 <= vi_arg1 && vi_arg1 <= 3);	/* the push loop is unwound */
	__CPROVER_assume(-1 <= k1 && k1 < 256 && -1 <= k2 && k2 < 256 && 0 < k3 && k3 < 128 && k3 != '@' && k3 != '\\' && k3 != 27 && k3 != 3);
	int cnt = vi_arg1 > 1 ? vi_arg1 : 1;
	/* first a plain @<k3>, which also makes k3 the register used last */
	one_call(k3, 0);
	H_ASSERT(XV.get_calls == 1 && XV.get_reg == k3 && !XV.bad && XV.pushes == (XQ.has_reg ? cnt : 0), "vc_execute: @r pushes the text of register r back count times (nothing for an unset register)");
	/* then any second command */
	one_call(k1, k2);
	int name = k1 == '\\' ? (0x80 | k2) : k1;
	if (name < 0 || name == 27 || name == 3) {
		H_ASSERT(XV.pushes == 0 && XV.get_calls == 0, "vc_execute: an interrupted @ does nothing");
	} else {
		int want = name == '@' ? k3 : name;
		H_ASSERT(XV.get_calls == 1 && XV.get_reg == want, "vc_execute: @@ executes the register used last, @r register r");
		H_ASSERT(!XV.bad && XV.pushes == (XQ.has_reg ? cnt : 0), "vc_execute: what is pushed back is the register's text, all of it, count times");
	}
#ifdef CANARY
	__CPROVER_assert(0, "canary");
#endif
}
