/* proof unit for vi_search of /repo/vi.c (/ ? n N).
 * MECHANICAL EXTRACTION (redone on every run by run.py, unit key "extract"): vi.c's preprocessor
 * lines, the declaration lines of vi_msg, vi_soset/vi_so and the verbatim text of vi_search;
 * everything else of vi.c is dropped.  Callees are declared here and stubbed in visr.spec.h; the
 * variadic snprintf is routed to a stub. */
#include "pre.h"
#include <stdio.h>
static int verif_snprintf(char *s, unsigned long n);
#define snprintf(s, n, ...) verif_snprintf(s, n)
static char *vi_prompt(char *msg, int *kmap, char *hist);
static char *reg_getln(int h);
static void reg_putln(int h, char *s);
#include EXTRACT_FILE
#define NO_STUB_STRLEN
#include "libc.spec.h"
#include "visr.spec.h"
