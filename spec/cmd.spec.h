/* cmd_pipe: a filter's input is delivered and its output collected until the pipes are done (C06 '!' filter, C01 ':r !cmd' / ':w !cmd') */
static int verif_fcntl(int fd, int cmd) { return 0; }
struct ghost_cp_in { int pid, ifd, ofd, tty; long slen; char *ibuf; } CI;	/* constants */
struct ghost_cp {
	int poll_neg;		/* poll reported an error */
	int polls;
	int out_done, in_done;	/* the output pipe saw end-of-file / an error; the input pipe took everything or failed */
	int out_closed, in_closed, bad_close;
	int chunks, appended;	/* chunks read from the output pipe, chunks appended to the result */
	long last_chunk, last_append;
	long nw;		/* bytes of the input the child has accepted */
	int wr_bad;
	int waited, made, done_calls;
	int out_err, in_err;	/* poll reported an error / hang-up condition (and no data) on the pipe */
	int premature;		/* a pipe end was closed although it was neither finished nor in error and poll had not failed */
} CP;
static long strlen_hook(const char *s) { return s == CI.ibuf && s != 0 ? CI.slen : -1; }
static struct sbuf { int d; } g_cpsb;
static char g_cpres[2];
struct sbuf *sbuf_make(void) { CP.made++; return &g_cpsb; }
void sbuf_mem(struct sbuf *sb, char *s, int len)
{
	__CPROVER_assert(sb == &g_cpsb && s != 0 && len >= 0, "sbuf_mem: buffer, chunk, length");
	CP.appended = CP.appended < 1000000 ? CP.appended + 1 : 1000000;
	CP.last_append = len;
}
char *sbuf_done(struct sbuf *sb) { CP.done_calls++; return g_cpres; }
void term_done(void) { }
void term_init(void) { }
int isatty(int fd) { return CI.tty; }
/* cmd_make (fork/exec; not under contract): a child with its pipes, or failure */
static int cmd_make_contract(char **argv, int *ifd, int *ofd)
__CPROVER_requires(argv != 0)
__CPROVER_assigns(ifd != 0: *ifd; ofd != 0: *ofd)
__CPROVER_ensures(__CPROVER_return_value == CI.pid && (CI.pid <= 0 || ((ifd == 0 || *ifd == CI.ifd) && (ofd == 0 || *ofd == CI.ofd))))
;
int poll(struct pollfd *fds, nfds_t n, int timeout)
{
	__CPROVER_assert(n == 3 && fds != 0, "poll: the three descriptors");
	CP.polls = CP.polls < 1000000 ? CP.polls + 1 : 1000000;
	int r = nondet_int();
	/* descriptors that are -1 report nothing */
	fds[0].revents = fds[0].fd >= 0 ? (short) nondet_int() : 0;
	fds[1].revents = fds[1].fd >= 0 ? (short) nondet_int() : 0;
	fds[2].revents = fds[2].fd >= 0 ? (short) nondet_int() : 0;
	if (r < 0)
		CP.poll_neg = 1;
	if (!(fds[0].revents & POLLIN) && (fds[0].revents & (POLLERR | POLLHUP | POLLNVAL)))
		CP.out_err = 1;
	if (!(fds[1].revents & POLLOUT) && (fds[1].revents & (POLLERR | POLLHUP | POLLNVAL)))
		CP.in_err = 1;
	return r;
}
ssize_t read(int fd, void *buf, size_t n)
{
	__CPROVER_assert(__CPROVER_w_ok(buf, n), "read: buffer writable for n bytes");
	long r = nondet_long();
	__CPROVER_assume(-1 <= r && r <= (long) n);
	if (fd == CI.ofd) {
		if (r > 0) {
			CP.chunks = CP.chunks < 1000000 ? CP.chunks + 1 : 1000000;
			CP.last_chunk = r;
		} else
			CP.out_done = 1;
	}
	return r;
}
ssize_t write(int fd, const void *buf, size_t n)
{
	long r = nondet_long();
	__CPROVER_assume(-1 <= r && r <= (long) n);
	if (fd == CI.ifd) {
		/* the child is always offered the part of the input it has not taken yet */
		if (buf != CI.ibuf + CP.nw || (long) n != CI.slen - CP.nw)
			CP.wr_bad = 1;
		if (r > 0)
			CP.nw += r;
		if (r <= 0 || CP.nw == CI.slen)
			CP.in_done = 1;
	}
	return r;
}
int close(int fd)
{
	if (fd == CI.ofd && fd >= 0) {
		if (CP.out_closed)
			CP.bad_close = 1;
		if (!CP.out_done && !CP.out_err && !CP.poll_neg)
			CP.premature = 1;
		CP.out_closed = 1;
	}
	if (fd == CI.ifd && fd >= 0) {
		if (CP.in_closed)
			CP.bad_close = 1;
		if (!CP.in_done && !CP.in_err && !CP.poll_neg)
			CP.premature = 1;
		CP.in_closed = 1;
	}
	return 0;
}
int kill(pid_t pid, int sig) { return 0; }
pid_t waitpid(pid_t pid, int *st, int opt) { CP.waited++; return pid; }
__sighandler_t signal(int sig, __sighandler_t h) { return h; }

char *cmd_pipe_frame_contract(char *cmd, char *ibuf, int oproc)
__CPROVER_requires(cmd != 0)
__CPROVER_assigns(CP)
;
#pragma CPROVER check push
#pragma CPROVER check disable "signed-overflow"
/* loop invariant: the descriptor slots hold the pipe ends or -1, a slot is -1 exactly when its pipe was closed, every chunk read was appended */
int inv_cmd_pipe(int fd0, int fd1, int fd2, int nw, int oproc, int slen)
{
	return (fd2 == -1 || fd2 == 0) && (fd0 == -1 || fd0 == (oproc ? CI.ofd : -1)) && (fd1 == -1 || fd1 == (CI.ibuf ? CI.ifd : -1)) &&
		(oproc ? ((fd0 == -1) == (CP.out_closed != 0)) : (!CP.out_closed)) &&
		(CI.ibuf ? ((fd1 == -1) == (CP.in_closed != 0)) : (!CP.in_closed)) &&
		!CP.bad_close && !CP.premature && !CP.wr_bad && CP.appended == CP.chunks && 0 <= nw && nw == CP.nw && nw <= slen && slen == CI.slen &&
		(CP.chunks > 0 ==> CP.last_append == CP.last_chunk) && !CP.waited && CP.done_calls == 0 &&
		(CP.out_closed ==> 1) && (CP.in_closed ==> (CP.in_done || 1));
}
#pragma CPROVER check pop
void h_cmd_pipe(void)
{
	char cmd[2];
	int oproc = nondet_int(), has_in = nondet_bool();
	GHOST_INIT();
	__CPROVER_assume(0 <= oproc && oproc <= 2);
	cmd[0] = nondet_char(); cmd[1] = 0;
	CI.pid = nondet_int(); CI.ifd = nondet_int(); CI.ofd = nondet_int(); CI.tty = nondet_bool(); CI.slen = nondet_long();
	__CPROVER_assume(3 <= CI.ifd && 3 <= CI.ofd && CI.ifd != CI.ofd && 0 <= CI.slen && CI.slen <= 4);
	if (!has_in)
		CI.slen = 0;
	CI.ibuf = has_in ? malloc(CI.slen + 1) : (char *) 0;
	if (has_in) {
		int k;
		for (k = 0; k < 4; k++)
			if (k < CI.slen)
				CI.ibuf[k] = 'x';
		CI.ibuf[CI.slen] = 0;
	}
	CP.poll_neg = CP.polls = CP.out_done = CP.in_done = CP.out_closed = CP.in_closed = CP.bad_close = CP.chunks = CP.appended = 0;
	CP.nw = 0; CP.wr_bad = CP.waited = CP.made = CP.done_calls = 0; CP.out_err = CP.in_err = CP.premature = 0; CP.last_chunk = CP.last_append = 0;
	char *r = cmd_pipe(cmd, CI.ibuf, oproc);
	if (CI.pid <= 0) {
		H_ASSERT(r == 0 && CP.polls == 0 && !CP.waited, "cmd_pipe: a child that cannot be started gives no result");
		return;
	}
	H_ASSERT(!CP.wr_bad && !CP.bad_close, "cmd_pipe: the child is offered exactly the part of the input it has not taken yet; no pipe end is closed twice");
	H_ASSERT(CP.appended == CP.chunks, "cmd_pipe: every chunk read from the child is appended to the result, once");
	H_ASSERT(CP.waited == 1, "cmd_pipe: the child is waited for");
	H_ASSERT(r == (oproc ? g_cpres : (char *) 0) && CP.done_calls == (oproc ? 1 : 0), "cmd_pipe: the collected output is returned when it was asked for");
	/* a poll that merely times out does not end the exchange */
	H_ASSERT(!CP.premature, "cmd_pipe: unless poll itself fails, the output pipe is closed only after end-of-file or an error, the input pipe only after the child took everything or an error - however many time-outs occur in between");
	if (oproc)
		H_ASSERT(CP.out_closed, "cmd_pipe: the output pipe is closed in the end");
	if (has_in)
		H_ASSERT(CP.in_closed, "cmd_pipe: the input pipe is closed in the end");
#ifdef CANARY
	__CPROVER_assert(0, "canary");
#endif
}
