/* contracts, ghost state, environment and harnesses for /repo/lbuf.c */

#define MAXLINES	0x1000000	/* 2^24 lines: bound of the claim (ln_n, ln_sz are int) */
#define MAXLINE		0x7ffffff0L	/* a line is shorter than 2^31 bytes */

/* ---- ghost witnesses (never assigned after GHOST_INIT: universally quantified) ---- */
int g_j;		/* witness line index */
long g_jlen;		/* strlen of the witness line */
#define g_o ((long) g_mk)	/* witness byte offset inside the witness line */
char *g_wl;		/* the witness line (lb->ln[g_j]) when a harness has one, else NULL */
#define LB_GHOST_INIT() do { GHOST_INIT(); g_j = nondet_int(); g_jlen = nondet_long(); g_wl = 0; } while (0)

/* ---- environment: write(2), ftruncate(2) ---- */
long g_w_acc;		/* bytes accepted by write() so far = length of the output stream */
int g_w_fail;		/* some write() returned < 0 */
long g_wit_k;		/* witness stream position (free ghost) */
int g_wit_seen;
char g_wit_val;		/* byte observed by write() at stream position g_wit_k */
int g_order;		/* harness tracks the order in which lines reach the stream */
long g_pending;		/* bytes copied into the batch buffer and not yet handed to write() */
/* the batch buffer is the object memcpy writes to (registered as g_real1 by the memcpy hook);
 * every other buffer handed to write() in an order-tracking unit is a line */
#define IS_LINE(p)	(!SAMEOBJ(p, g_real1))
int g_trunc_calls;
long g_trunc_len;
int g_trunc_fail;

/* STUB: write(2) - may return -1 or any count 1..n at every call (every fault position x short count); assumption: a write of n>0 bytes never returns 0 (else the retry loop of write_fully would not terminate) */
ssize_t write(int fd, const void *buf, size_t n)
{
	__CPROVER_assert(n == 0 || OPAQUE(buf) || __CPROVER_r_ok(buf, n), "write: buffer readable for n bytes");
	long r = nondet_long();
	__CPROVER_assume(r >= -1 && r <= (long) n && (n == 0 || r != 0));
	if (g_order && !IS_LINE(buf))
		g_pending = 0;	/* ghost: the batch buffer is being flushed */
	if (r < 0) {
		g_w_fail = 1;
	} else {
		if (!OPAQUE(buf) && g_w_acc <= g_wit_k && g_wit_k < g_w_acc + r) {
			g_wit_val = ((const char *) buf)[g_wit_k - g_w_acc];
			g_wit_seen = 1;
		}
		g_w_acc += r;
	}
	return r;
}

/* STUB: ftruncate(2) - records the length; may fail */
int ftruncate(int fd, off_t len)
{
	g_trunc_calls = g_trunc_calls < 1000 ? g_trunc_calls + 1 : g_trunc_calls;
	g_trunc_len = len;
	if (nondet_bool())
		return 0;
	g_trunc_fail = 1;
	return -1;
}

#define W_ENV_HAVOC() do { g_w_acc = nondet_long(); g_w_fail = nondet_int(); g_order = 0; g_pending = nondet_long(); \
	g_wit_k = nondet_long(); g_wit_seen = nondet_bool(); g_wit_val = nondet_char(); \
	g_trunc_calls = 0; g_trunc_len = -1; g_trunc_fail = 0; } while (0)
#define W_ENV_OK	(g_w_acc >= 0 && g_w_acc <= 0x0fffffffffffffffL && g_w_fail == 0)

/* ---- write_fully ---- */
long write_fully_contract(int fd, void *buf, long sz)
__CPROVER_requires(sz >= 0 && sz <= MAXLINE && (OPAQUE(buf) || __CPROVER_is_fresh(buf, sz)))
__CPROVER_requires(W_ENV_OK)
/* stream order (C01): a line is handed to write() directly only while no batched bytes are
 * pending, and the batch is flushed from its start with exactly the pending length */
__CPROVER_requires((g_order && IS_LINE(buf)) ==> g_pending == 0)
__CPROVER_requires((g_order && !IS_LINE(buf)) ==> (sz == g_pending && __CPROVER_POINTER_OFFSET(buf) == 0))
__CPROVER_assigns(g_w_acc, g_w_fail, g_wit_val, g_wit_seen, g_pending)
__CPROVER_ensures(g_pending == ((g_order && !IS_LINE(buf) && sz > 0) ? 0 : __CPROVER_old(g_pending)))
/* all or nothing is reported */
__CPROVER_ensures(__CPROVER_return_value == sz || __CPROVER_return_value == -1)
/* success: exactly sz bytes were accepted, in order, no failure seen */
__CPROVER_ensures(__CPROVER_return_value == sz ==>
	g_w_acc == __CPROVER_old(g_w_acc) + sz && !g_w_fail)
/* failure is reported iff some write failed */
__CPROVER_ensures((__CPROVER_return_value == -1) == (g_w_fail != 0))
__CPROVER_ensures(__CPROVER_return_value == -1 ==> g_w_acc >= __CPROVER_old(g_w_acc) &&
	g_w_acc <= __CPROVER_old(g_w_acc) + sz)
/* content: the stream byte at the (arbitrary) witness position is the buffer byte handed in */
__CPROVER_ensures((__CPROVER_return_value == sz && !OPAQUE(buf) &&
	__CPROVER_old(g_w_acc) <= g_wit_k && g_wit_k < __CPROVER_old(g_w_acc) + sz) ==>
	(g_wit_seen && g_wit_val == ((char *) buf)[g_wit_k - __CPROVER_old(g_w_acc)]))
/* bytes outside this call's window are not (re)observed */
__CPROVER_ensures((g_wit_k < __CPROVER_old(g_w_acc) || g_wit_k >= __CPROVER_old(g_w_acc) + sz) ==>
	(g_wit_seen == __CPROVER_old(g_wit_seen) && g_wit_val == __CPROVER_old(g_wit_val)))
;

void h_write_fully(void)
{
	int fd;
	void *buf;
	long sz;
	LB_GHOST_INIT();
	W_ENV_HAVOC();
	g_order = nondet_bool();
	write_fully(fd, buf, sz);
#ifdef CANARY
	__CPROVER_assert(0, "canary");
#endif
}

/* ---- ghost hook of the strlen stub ---- */
/* the witness line has the ghost-known length g_jlen; every other line met by strlen in a
 * line-table unit is an opaque stand-in (arbitrary length and content): lines are distinct heap
 * blocks (LB_OK), instantiated lazily at the line used */
long strlen_hook(const char *s)
{
	if (g_opaque_on)
		__CPROVER_assume((g_wl && s == g_wl) || (!SAMEOBJ(s, g_wl) && !SAMEOBJ(s, g_real1) && !SAMEOBJ(s, g_real2)));
	return (g_wl && s == g_wl) ? g_jlen : -1;
}

/* ghost: a line copied into the batch buffer is appended right after the pending bytes */
void memcpy_hook(void *dst, const void *src, size_t n)
{
	if (g_order) {
		__CPROVER_assume(!__CPROVER_same_object(src, dst));	/* a line (heap block) is never the batch buffer (stack array) */
		__CPROVER_assert(g_real1 == 0 || __CPROVER_same_object(dst, g_real1), "stream order: there is one batch buffer");
		g_real1 = (const char *) dst - __CPROVER_POINTER_OFFSET(dst);
		__CPROVER_assert((long) __CPROVER_POINTER_OFFSET(dst) == g_pending,
			"stream order: a batched line is appended directly after the bytes already pending");
		g_pending += (long) n;
	}
}

/* ---- lbuf_wr ---- */
#define WR_INRANGE	(beg <= g_j && g_j < end)
int lbuf_wr_contract(struct lbuf *lbuf, int fd, int beg, int end)
__CPROVER_requires(__CPROVER_is_fresh(lbuf, sizeof(*lbuf)))
__CPROVER_requires(0 <= beg && beg <= end && end <= lbuf->ln_n && lbuf->ln_n < lbuf->ln_sz &&
	lbuf->ln_sz <= MAXLINES)
__CPROVER_requires(__CPROVER_is_fresh(lbuf->ln, sizeof(char *) * lbuf->ln_sz))
__CPROVER_requires(0 <= g_jlen && g_jlen <= MAXLINE && g_mk <= MAXLINE)
/* the witness line is a NUL-terminated heap string of length g_jlen */
__CPROVER_requires(WR_INRANGE ==> (__CPROVER_is_fresh(lbuf->ln[g_j], g_jlen + 1) &&
	lbuf->ln[g_j][g_jlen] == 0 && (g_o >= g_jlen || lbuf->ln[g_j][g_o] != 0)))
__CPROVER_requires(g_wl == (WR_INRANGE ? lbuf->ln[g_j] : (char *) 0) && g_wit_obj == g_wl)
__CPROVER_requires(g_opaque_on)
__CPROVER_requires(W_ENV_OK && g_w_acc <= 0x00ffffffffffffffL && g_trunc_calls == 0)
__CPROVER_requires(g_order && g_pending == 0)
__CPROVER_assigns(g_w_acc, g_w_fail, g_wit_val, g_wit_seen, g_trunc_calls, g_trunc_len, g_trunc_fail, g_pending, g_real1)
/* C01 stream order: nothing is left pending in the batch on success */
__CPROVER_ensures(__CPROVER_return_value == 0 ==> g_pending == 0)
__CPROVER_ensures(__CPROVER_return_value == 0 || __CPROVER_return_value == 1)
/* C03: failure is reported iff some write failed; then the file is not truncated */
__CPROVER_ensures((__CPROVER_return_value == 1) == (g_w_fail != 0))
__CPROVER_ensures(__CPROVER_return_value == 1 ==> g_trunc_calls == 0)
/* C01: on success the target is cut to exactly the number of bytes written */
__CPROVER_ensures(__CPROVER_return_value == 0 ==>
	(g_trunc_calls == 1 && g_trunc_len == g_w_acc - __CPROVER_old(g_w_acc)))
/* an empty range writes nothing */
__CPROVER_ensures((__CPROVER_return_value == 0 && beg == end) ==> g_w_acc == __CPROVER_old(g_w_acc))
;

void h_lbuf_wr(void)
{
	struct lbuf *lb;
	int fd, beg, end;
	LB_GHOST_INIT();
	W_ENV_HAVOC();
	g_opaque_on = 1;
	g_wl = nondet_ptr();
	g_wit_obj = nondet_ptr();
	g_order = 1;
	g_pending = 0;
	lbuf_wr(lb, fd, beg, end);
#ifdef CANARY
	__CPROVER_assert(0, "canary");
#endif
}
