/* contracts, ghost state, environment and harnesses for /repo/lbuf.c */

#define MAXLINES	0x1000000	/* 2^24 lines: bound of the claim (ln_n, ln_sz are int) */
#define MAXLINE		0x7ffffff0L	/* a line is shorter than 2^31 bytes */

/* ---- ghost witnesses (never assigned after GHOST_INIT: universally quantified) ---- */
int g_j;		/* witness line index */
long g_jlen;		/* strlen of the witness line */
#define g_o ((long) g_mk)	/* witness byte offset inside the witness line */
char *g_wl;		/* the witness line (lb->ln[g_j]) when a harness has one, else NULL */
#define LB_GHOST_INIT() do { GHOST_INIT(); g_j = nondet_int(); g_jlen = nondet_long(); g_wl = 0; } while (0)

/* ---- environment: write(2), ftruncate(2) ---- */
long g_w_acc;		/* bytes accepted by write() so far = length of the output stream */
int g_w_fail;		/* some write() returned < 0 */
long g_wit_k;		/* witness stream position (free ghost) */
int g_wit_seen;
char g_wit_val;		/* byte observed by write() at stream position g_wit_k */
int g_order;		/* harness tracks the order in which lines reach the stream */
long g_pending;		/* bytes copied into the batch buffer and not yet handed to write() */
/* the batch buffer is the object memcpy writes to (registered as g_real1 by the memcpy hook);
 * every other buffer handed to write() in an order-tracking unit is a line */
#define IS_LINE(p)	(!SAMEOBJ(p, g_real1))
int g_trunc_calls;
long g_trunc_len;
int g_trunc_fail;

/* STUB: write(2) - may return -1 or any count 1..n at every call (every fault position x short count); assumption: a write of n>0 bytes never returns 0 (else the retry loop of write_fully would not terminate) */
ssize_t write(int fd, const void *buf, size_t n)
{
	__CPROVER_assert(n == 0 || OPAQUE(buf) || __CPROVER_r_ok(buf, n), "write: buffer readable for n bytes");
	long r = nondet_long();
	__CPROVER_assume(r >= -1 && r <= (long) n && (n == 0 || r != 0));
	if (g_order && !IS_LINE(buf))
		g_pending = 0;	/* ghost: the batch buffer is being flushed */
	if (r < 0) {
		g_w_fail = 1;
	} else {
		if (!OPAQUE(buf) && g_w_acc <= g_wit_k && g_wit_k < g_w_acc + r) {
			g_wit_val = ((const char *) buf)[g_wit_k - g_w_acc];
			g_wit_seen = 1;
		}
		g_w_acc += r;
	}
	return r;
}

/* STUB: ftruncate(2) - records the length; may fail */
int ftruncate(int fd, off_t len)
{
	g_trunc_calls = g_trunc_calls < 1000 ? g_trunc_calls + 1 : g_trunc_calls;
	g_trunc_len = len;
	if (nondet_bool())
		return 0;
	g_trunc_fail = 1;
	return -1;
}

#define W_ENV_HAVOC() do { g_w_acc = nondet_long(); g_w_fail = nondet_int(); g_order = 0; g_pending = nondet_long(); \
	g_wit_k = nondet_long(); g_wit_seen = nondet_bool(); g_wit_val = nondet_char(); \
	g_trunc_calls = 0; g_trunc_len = -1; g_trunc_fail = 0; } while (0)
#define W_ENV_OK	(g_w_acc >= 0 && g_w_acc <= 0x0fffffffffffffffL && g_w_fail == 0)

/* ---- write_fully ---- */
long write_fully_contract(int fd, void *buf, long sz)
__CPROVER_requires(sz >= 0 && sz <= MAXLINE && (OPAQUE(buf) || __CPROVER_is_fresh(buf, sz)))
__CPROVER_requires(W_ENV_OK)
/* stream order (C01): a line is handed to write() directly only while no batched bytes are
 * pending, and the batch is flushed from its start with exactly the pending length */
__CPROVER_requires((g_order && IS_LINE(buf)) ==> g_pending == 0)
__CPROVER_requires((g_order && !IS_LINE(buf)) ==> (sz == g_pending && __CPROVER_POINTER_OFFSET(buf) == 0))
__CPROVER_assigns(g_w_acc, g_w_fail, g_wit_val, g_wit_seen, g_pending)
__CPROVER_ensures(g_pending == ((g_order && !IS_LINE(buf) && sz > 0) ? 0 : __CPROVER_old(g_pending)))
/* all or nothing is reported */
__CPROVER_ensures(__CPROVER_return_value == sz || __CPROVER_return_value == -1)
/* success: exactly sz bytes were accepted, in order, no failure seen */
__CPROVER_ensures(__CPROVER_return_value == sz ==>
	g_w_acc == __CPROVER_old(g_w_acc) + sz && !g_w_fail)
/* failure is reported iff some write failed */
__CPROVER_ensures((__CPROVER_return_value == -1) == (g_w_fail != 0))
__CPROVER_ensures(__CPROVER_return_value == -1 ==> g_w_acc >= __CPROVER_old(g_w_acc) &&
	g_w_acc <= __CPROVER_old(g_w_acc) + sz)
/* content: the stream byte at the (arbitrary) witness position is the buffer byte handed in */
__CPROVER_ensures((__CPROVER_return_value == sz && !OPAQUE(buf) &&
	__CPROVER_old(g_w_acc) <= g_wit_k && g_wit_k < __CPROVER_old(g_w_acc) + sz) ==>
	(g_wit_seen && g_wit_val == ((char *) buf)[g_wit_k - __CPROVER_old(g_w_acc)]))
/* bytes outside this call's window are not (re)observed */
__CPROVER_ensures((g_wit_k < __CPROVER_old(g_w_acc) || g_wit_k >= __CPROVER_old(g_w_acc) + sz) ==>
	(g_wit_seen == __CPROVER_old(g_wit_seen) && g_wit_val == __CPROVER_old(g_wit_val)))
;

void h_write_fully(void)
{
	int fd;
	void *buf;
	long sz;
	LB_GHOST_INIT();
	W_ENV_HAVOC();
	g_order = nondet_bool();
	write_fully(fd, buf, sz);
#ifdef CANARY
	__CPROVER_assert(0, "canary");
#endif
}

/* ---- ghost hook of the strlen stub ---- */
/* the witness line has the ghost-known length g_jlen; every other line met by strlen in a
 * line-table unit is an opaque stand-in (arbitrary length and content): lines are distinct heap
 * blocks (LB_OK), instantiated lazily at the line used */
long strlen_hook(const char *s)
{
	if (g_opaque_on)
		__CPROVER_assume((g_wl && s == g_wl) || (!SAMEOBJ(s, g_wl) && !SAMEOBJ(s, g_real1) && !SAMEOBJ(s, g_real2)));
	return (g_wl && s == g_wl) ? g_jlen : -1;
}

/* ghost: a line copied into the batch buffer is appended right after the pending bytes */
void memcpy_hook(void *dst, const void *src, size_t n)
{
	if (g_order) {
		__CPROVER_assume(!__CPROVER_same_object(src, dst));	/* a line (heap block) is never the batch buffer (stack array) */
		__CPROVER_assert(g_real1 == 0 || __CPROVER_same_object(dst, g_real1), "stream order: there is one batch buffer");
		g_real1 = (const char *) dst - __CPROVER_POINTER_OFFSET(dst);
		__CPROVER_assert((long) __CPROVER_POINTER_OFFSET(dst) == g_pending,
			"stream order: a batched line is appended directly after the bytes already pending");
		g_pending += (long) n;
	}
}

/* ---- lbuf_wr ---- */
#define WR_INRANGE	(beg <= g_j && g_j < end)
int lbuf_wr_contract(struct lbuf *lbuf, int fd, int beg, int end)
__CPROVER_requires(__CPROVER_is_fresh(lbuf, sizeof(*lbuf)))
__CPROVER_requires(0 <= beg && beg <= end && end <= lbuf->ln_n && lbuf->ln_n < lbuf->ln_sz &&
	lbuf->ln_sz <= MAXLINES)
__CPROVER_requires(__CPROVER_is_fresh(lbuf->ln, sizeof(char *) * lbuf->ln_sz))
__CPROVER_requires(0 <= g_jlen && g_jlen <= MAXLINE && g_mk <= MAXLINE)
/* the witness line is a NUL-terminated heap string of length g_jlen */
__CPROVER_requires(WR_INRANGE ==> (__CPROVER_is_fresh(lbuf->ln[g_j], g_jlen + 1) &&
	lbuf->ln[g_j][g_jlen] == 0 && (g_o >= g_jlen || lbuf->ln[g_j][g_o] != 0)))
__CPROVER_requires(g_wl == (WR_INRANGE ? lbuf->ln[g_j] : (char *) 0) && g_wit_obj == g_wl)
__CPROVER_requires(g_opaque_on)
__CPROVER_requires(W_ENV_OK && g_w_acc <= 0x00ffffffffffffffL && g_trunc_calls == 0)
__CPROVER_requires(g_order && g_pending == 0)
__CPROVER_assigns(g_w_acc, g_w_fail, g_wit_val, g_wit_seen, g_trunc_calls, g_trunc_len, g_trunc_fail, g_pending, g_real1)
/* C01 stream order: nothing is left pending in the batch on success */
__CPROVER_ensures(__CPROVER_return_value == 0 ==> g_pending == 0)
__CPROVER_ensures(__CPROVER_return_value == 0 || __CPROVER_return_value == 1)
/* C03: failure is reported iff some write failed; then the file is not truncated */
__CPROVER_ensures((__CPROVER_return_value == 1) == (g_w_fail != 0))
__CPROVER_ensures(__CPROVER_return_value == 1 ==> g_trunc_calls == 0)
/* C01: on success the target is cut to exactly the number of bytes written */
__CPROVER_ensures(__CPROVER_return_value == 0 ==>
	(g_trunc_calls == 1 && g_trunc_len == g_w_acc - __CPROVER_old(g_w_acc)))
/* an empty range writes nothing */
__CPROVER_ensures((__CPROVER_return_value == 0 && beg == end) ==> g_w_acc == __CPROVER_old(g_w_acc))
;

void h_lbuf_wr(void)
{
	struct lbuf *lb;
	int fd, beg, end;
	LB_GHOST_INIT();
	W_ENV_HAVOC();
	g_opaque_on = 1;
	g_wl = nondet_ptr();
	g_wit_obj = nondet_ptr();
	g_order = 1;
	g_pending = 0;
	lbuf_wr(lb, fd, beg, end);
#ifdef CANARY
	__CPROVER_assert(0, "canary");
#endif
}

/* ================================================================== sequence numbers, dirty test, undo heads (C02, C04) */
struct lbuf *g_xb;	/* what ex_lbuf() returns: the current buffer */
struct lbuf *ex_lbuf(void)
{
	return g_xb;
}

#define MAXHIST	0x100000	/* 2^20 history entries: bound of the claim (hist_n is int) */
/* shape of the history table */
#define HIST_SHAPE(lb)	(0 <= (lb)->hist_u && (lb)->hist_u <= (lb)->hist_n && (lb)->hist_n <= (lb)->hist_sz && \
	(lb)->hist_sz <= MAXHIST && 0 <= (lb)->useq && (lb)->useq < 0x7ffffff0)
#define SEQ_AT(lb, u)	((u) ? (lb)->hist[(u) - 1].seq : (lb)->useq_last)

/* ---- lbuf_modified ---- */
int lbuf_modified_contract(struct lbuf *lb)
__CPROVER_requires(__CPROVER_is_fresh(lb, sizeof(*lb)) && HIST_SHAPE(lb))
__CPROVER_requires(lb->hist_sz == 0 || __CPROVER_is_fresh(lb->hist, sizeof(struct lopt) * lb->hist_sz))
__CPROVER_assigns(lb->useq)
/* the dirty test: sequence number of the current undo position vs the one recorded at save */
__CPROVER_ensures(__CPROVER_return_value == (SEQ_AT(lb, lb->hist_u) != lb->useq_zero))
/* every top-level command bumps the counter exactly once through this function */
__CPROVER_ensures(lb->useq == __CPROVER_old(lb->useq) + 1)
;

void h_lbuf_modified(void)
{
	struct lbuf *lb;
	LB_GHOST_INIT();
	lbuf_modified(lb);
#ifdef CANARY
	__CPROVER_assert(0, "canary");
#endif
}

/* ---- lopt_done as seen by the loops that release history entries: touches nothing but the heap blocks it frees ---- */
void lopt_done_contract(struct lopt *lo)
__CPROVER_requires(lo != 0)
__CPROVER_assigns()
;

/* ---- lbuf_saved ---- */
void lbuf_saved_contract(struct lbuf *lb, int clear)
__CPROVER_requires(__CPROVER_is_fresh(lb, sizeof(*lb)) && HIST_SHAPE(lb))
__CPROVER_requires(lb->hist_sz == 0 || __CPROVER_is_fresh(lb->hist, sizeof(struct lopt) * lb->hist_sz))
/* HIST_OK: no logged sequence number is ahead of the command counter (lbuf_opt logs seq == useq) */
__CPROVER_requires(SEQ_AT(lb, lb->hist_u) <= lb->useq && lb->useq_last <= lb->useq)
/* call-site fact: every caller passes the current buffer (the body bumps xb, not lb) */
__CPROVER_requires(g_xb == lb)
__CPROVER_assigns(lb->useq, lb->useq_zero, lb->hist_n, lb->hist_u, lb->useq_last)
/* after a save the buffer tests clean ... */
__CPROVER_ensures(clear >= 0 ==> SEQ_AT(lb, lb->hist_u) == lb->useq_zero)
/* ... clear < 0 marks it modified whatever the history holds (sequence numbers are never negative) */
__CPROVER_ensures(clear < 0 ==> lb->useq_zero == -1)
/* ... and the counter moves on, so no later edit can share the saved number */
__CPROVER_ensures(lb->useq > __CPROVER_old(lb->useq) && lb->useq_zero < lb->useq)
/* clear > 0 drops the whole history, clear <= 0 keeps it */
__CPROVER_ensures(clear > 0 ? (lb->hist_n == 0 && lb->hist_u == 0 && lb->useq_last == __CPROVER_old(lb->useq))
	: (lb->hist_n == __CPROVER_old(lb->hist_n) && lb->hist_u == __CPROVER_old(lb->hist_u) &&
	   lb->useq_last == __CPROVER_old(lb->useq_last)))
;

void h_lbuf_saved(void)
{
	struct lbuf *lb;
	int clear;
	LB_GHOST_INIT();
	g_xb = nondet_ptr();
	lbuf_saved(lb, clear);
#ifdef CANARY
	__CPROVER_assert(0, "canary");
#endif
}

/* ================================================================== undo / redo heads (C04) */
int g_h;		/* witness history index */
/* lbuf_replace as seen by undo/redo: it splices lines and moves marks; it never touches the
 * history table, the undo cursor or the sequence counters (frame proved in unit lbuf.replace_frame) */
void lbuf_replace_frame_contract(struct lbuf *lb, char *s, int pos, int n_del)
__CPROVER_requires(lb != 0)
__CPROVER_assigns(lb->ln, lb->ln_glob, lb->ln_n, lb->ln_sz, __CPROVER_object_upto(lb->mark, sizeof(lb->mark)), __CPROVER_object_upto(lb->mark_off, sizeof(lb->mark_off)))
;

#define HIST_PRE(lb) (__CPROVER_is_fresh(lb, sizeof(*lb)) && HIST_SHAPE(lb) && \
	(lb->hist_sz == 0 || __CPROVER_is_fresh(lb->hist, sizeof(struct lopt) * lb->hist_sz)))

int lbuf_undo_contract(struct lbuf *lb)
__CPROVER_requires(HIST_PRE(lb))
__CPROVER_assigns(lb->hist_u, lb->ln, lb->ln_glob, lb->ln_n, lb->ln_sz, __CPROVER_object_upto(lb->mark, sizeof(lb->mark)), __CPROVER_object_upto(lb->mark_off, sizeof(lb->mark_off)))
/* at the beginning of history: fails and changes nothing (frame: only hist_u and the line table are assignable at all) */
__CPROVER_ensures(__CPROVER_old(lb->hist_u) == 0 ==> (__CPROVER_return_value == 1 && lb->hist_u == 0 &&
	lb->ln == __CPROVER_old(lb->ln) && lb->ln_n == __CPROVER_old(lb->ln_n)))
/* otherwise: exactly the maximal run of entries carrying the top sequence number is taken back */
__CPROVER_ensures(__CPROVER_old(lb->hist_u) > 0 ==> (__CPROVER_return_value == 0 && lb->hist_u < __CPROVER_old(lb->hist_u) && lb->hist_u >= 0))
__CPROVER_ensures((__CPROVER_old(lb->hist_u) > 0 && lb->hist_u <= g_h && g_h < __CPROVER_old(lb->hist_u)) ==>
	lb->hist[g_h].seq == lb->hist[__CPROVER_old(lb->hist_u) - 1].seq)
__CPROVER_ensures((__CPROVER_old(lb->hist_u) > 0 && lb->hist_u > 0) ==>
	lb->hist[lb->hist_u - 1].seq != lb->hist[__CPROVER_old(lb->hist_u) - 1].seq)
;

int lbuf_redo_contract(struct lbuf *lb)
__CPROVER_requires(HIST_PRE(lb))
__CPROVER_assigns(lb->hist_u, lb->ln, lb->ln_glob, lb->ln_n, lb->ln_sz, __CPROVER_object_upto(lb->mark, sizeof(lb->mark)), __CPROVER_object_upto(lb->mark_off, sizeof(lb->mark_off)))
__CPROVER_ensures(__CPROVER_old(lb->hist_u) == lb->hist_n ==> (__CPROVER_return_value == 1 && lb->hist_u == lb->hist_n &&
	lb->ln == __CPROVER_old(lb->ln) && lb->ln_n == __CPROVER_old(lb->ln_n)))
__CPROVER_ensures(__CPROVER_old(lb->hist_u) < lb->hist_n ==> (__CPROVER_return_value == 0 && lb->hist_u > __CPROVER_old(lb->hist_u) && lb->hist_u <= lb->hist_n))
__CPROVER_ensures((__CPROVER_old(lb->hist_u) < lb->hist_n && __CPROVER_old(lb->hist_u) <= g_h && g_h < lb->hist_u) ==>
	lb->hist[g_h].seq == lb->hist[__CPROVER_old(lb->hist_u)].seq)
__CPROVER_ensures((__CPROVER_old(lb->hist_u) < lb->hist_n && lb->hist_u < lb->hist_n) ==>
	lb->hist[lb->hist_u].seq != lb->hist[__CPROVER_old(lb->hist_u)].seq)
;

void h_lbuf_undo(void)
{
	struct lbuf *lb;
	LB_GHOST_INIT();
	g_h = nondet_int();
	lbuf_undo(lb);
#ifdef CANARY
	__CPROVER_assert(0, "canary");
#endif
}

void h_lbuf_redo(void)
{
	struct lbuf *lb;
	LB_GHOST_INIT();
	g_h = nondet_int();
	lbuf_redo(lb);
#ifdef CANARY
	__CPROVER_assert(0, "canary");
#endif
}

/* ================================================================== small accessors (C05, C06, C15) */
char *lbuf_get_contract(struct lbuf *lb, int pos)
__CPROVER_requires(__CPROVER_is_fresh(lb, sizeof(*lb)) && 0 <= lb->ln_n && lb->ln_n <= MAXLINES)
__CPROVER_requires(lb->ln_n == 0 || __CPROVER_is_fresh(lb->ln, sizeof(char *) * lb->ln_n))
__CPROVER_assigns()
/* line accessors return NULL outside the buffer */
__CPROVER_ensures((pos < 0 || pos >= lb->ln_n) ==> __CPROVER_return_value == 0)
__CPROVER_ensures((0 <= pos && pos < lb->ln_n) ==> __CPROVER_return_value == lb->ln[pos])
;

void h_lbuf_get(void)
{
	struct lbuf *lb;
	int pos;
	LB_GHOST_INIT();
	lbuf_get(lb, pos);
#ifdef CANARY
	__CPROVER_assert(0, "canary");
#endif
}

/* marks: set / jump (C06 "a mark keeps designating the same line") */
void h_lbuf_mark_jump(void)
{
	struct lbuf *lb = malloc(sizeof(*lb));
	int i, mark = nondet_int(), pos = nondet_int(), off = nondet_int();
	int other = nondet_int();
	int p2 = nondet_int(), o2 = nondet_int(), p3 = nondet_int();
	LB_GHOST_INIT();
	for (i = 0; i < NMARKS; i++) {
		lb->mark[i] = nondet_int();
		lb->mark_off[i] = nondet_int();
	}
	__CPROVER_assume(mark >= -128 && mark < 256 && other >= -128 && other < 256);
	int mi = markidx(mark), oi = markidx(other);
	H_ASSERT(mi >= -1 && mi < NMARKS, "markidx: index inside mark[] or -1");
	H_ASSERT((mark >= 'a' && mark <= 'z') ? mi == mark - 'a' : 1, "markidx: letters map to 0..25");
	int before = oi >= 0 ? lb->mark[oi] : -2;
	lbuf_mark(lb, mark, pos, off);
	if (oi >= 0 && oi != mi)
		H_ASSERT(lb->mark[oi] == before, "lbuf_mark: setting one mark leaves every other mark alone");
	int r = lbuf_jump(lb, mark, &p2, &o2);
	if (mi >= 0 && pos >= 0)
		H_ASSERT(r == 0 && p2 == pos && o2 == off, "lbuf_jump: returns the line and offset the mark was set to");
	if (mi < 0 || pos < 0)
		H_ASSERT(r == 1, "lbuf_jump: an unknown or unset mark fails");
	int p3_before = p3;
	if (lbuf_jump(lb, other, &p3, 0))
		H_ASSERT(p3 == p3_before, "lbuf_jump: a failing jump leaves the position alone");
#ifdef CANARY
	__CPROVER_assert(0, "canary");
#endif
}

/* global-command marks: set / test-and-clear bit dep of one line only (C15) */
void h_lbuf_glob(void)
{
	struct lbuf *lb = malloc(sizeof(*lb));
	int n = nondet_int(), pos = nondet_int(), dep = nondet_int(), other = nondet_int(), d2 = nondet_int();
	__CPROVER_assume(n > 0 && n <= MAXLINES && 0 <= pos && pos < n && 0 <= other && other < n);
	/* precondition established by ec_glob: nesting depth 1..7 (bit of a char) */
	__CPROVER_assume(0 <= dep && dep < 7 && 0 <= d2 && d2 < 7);
	lb->ln_n = n;
	lb->ln_glob = malloc(n);
	char before_o = lb->ln_glob[other], before_p = lb->ln_glob[pos];
	lbuf_globset(lb, pos, dep);
	H_ASSERT(lb->ln_glob[pos] & (1 << dep), "lbuf_globset: sets bit dep of the line");
	H_ASSERT(d2 == dep || ((lb->ln_glob[pos] ^ before_p) & (1 << d2)) == 0, "lbuf_globset: leaves the marks of other nesting depths alone");
	H_ASSERT(other == pos || lb->ln_glob[other] == before_o, "lbuf_globset: leaves other lines alone");
	char mid = lb->ln_glob[pos];
	int r = lbuf_globget(lb, pos, dep);
	H_ASSERT(r == 1, "lbuf_globget: reports the mark that was set");
	H_ASSERT((lb->ln_glob[pos] & (1 << dep)) == 0, "lbuf_globget: clears bit dep");
	H_ASSERT(d2 == dep || ((lb->ln_glob[pos] ^ mid) & (1 << d2)) == 0, "lbuf_globget: leaves other depths alone");
	H_ASSERT(lbuf_globget(lb, pos, dep) == 0, "lbuf_globget: a cleared mark reads 0 (at most one visit)");
	H_ASSERT(other == pos || lb->ln_glob[other] == before_o, "lbuf_globget: leaves other lines alone");
#ifdef CANARY
	__CPROVER_assert(0, "canary");
#endif
}

/* lbuf_loadmark as seen by the undo loop: restores at most mark m from a well-formed entry */
void lbuf_loadmark_contract(struct lbuf *lb, struct lopt *lo, int m)
__CPROVER_requires(lb != 0 && lo != 0 && 0 <= m && m < NMARKS)
__CPROVER_assigns(lb->mark[m], lb->mark_off[m])
;

/* the mark helpers on a well-formed entry (mark arrays NULL or 32 ints each) */
void h_lbuf_markhelpers(void)
{
	struct lbuf *lb = malloc(sizeof(*lb));
	struct lopt *lo = malloc(sizeof(*lo));
	int i, m = nondet_int(), k = nondet_int();
	LB_GHOST_INIT();
	for (i = 0; i < NMARKS; i++) {
		lb->mark[i] = nondet_int();
		lb->mark_off[i] = nondet_int();
	}
	lo->mark = 0;
	lo->mark_off = 0;
	lo->pos = nondet_int();
	lo->pos_off = nondet_int();
	__CPROVER_assume(0 <= m && m < NMARKS && 0 <= k && k < NMARKS);
	int mk = lb->mark[m], mo = lb->mark_off[m], kk = lb->mark[k];
	lbuf_savemark(lb, lo, m);
	H_ASSERT(mk < 0 ? lo->mark == 0 : (lo->mark[m] == mk && lo->mark_off[m] == mo), "lbuf_savemark: a set mark is recorded in the entry");
	H_ASSERT(mk < 0 || k == m || lo->mark[k] == -1, "lbuf_savemark: marks not saved read as unset (-1)");
	lb->mark[m] = nondet_int();
	lb->mark_off[m] = nondet_int();
	int before_k = lb->mark[k];
	lbuf_loadmark(lb, lo, m);
	H_ASSERT(mk < 0 || (lb->mark[m] == mk && lb->mark_off[m] == mo), "lbuf_loadmark: restores the saved line and offset");
	H_ASSERT(k == m || lb->mark[k] == before_k, "lbuf_loadmark: touches only mark m");
	lbuf_loadpos(lb, lo);
	H_ASSERT(lb->mark[markidx('^')] == lo->pos && lb->mark_off[markidx('^')] == lo->pos_off &&
		lb->mark[markidx('*')] == lo->pos, "lbuf_loadpos: cursor marks point at the edit position");
#ifdef CANARY
	__CPROVER_assert(0, "canary");
#endif
}

/* ================================================================== lbuf_cp, lbuf_edit, lbuf_rd (C01, C04, C05, C06) */
/* string-buffer callee contracts (proved on the real sbuf.c in units sbuf.*) as recording stubs:
 * pieces are appended in program order, each exactly as long as asked for */
struct ghost_sb { int live, made, freed, done; int next_line; int str_calls; int bad; long mem_total; int mem_calls; char *last_src; } SB;
static struct sbuf { int d; } g_sbuf_obj;
static char g_sb_text[2];
struct lbuf *g_cp_lb;
struct sbuf *sbuf_make(void)
{
	SB.live = SB.live < 1000 ? SB.live + 1 : 1000;
	SB.made = SB.made < 1000 ? SB.made + 1 : 1000;
	return &g_sbuf_obj;
}
void sbuf_free(struct sbuf *sb)
{
	__CPROVER_assert(sb == &g_sbuf_obj && SB.live > 0, "sbuf_free: a live string buffer");
	SB.live--;
	SB.freed = SB.freed < 1000 ? SB.freed + 1 : 1000;
}
char *sbuf_done(struct sbuf *sb)
{
	__CPROVER_assert(sb == &g_sbuf_obj && SB.live > 0, "sbuf_done: a live string buffer");
	SB.live--;
	SB.done = SB.done < 1000 ? SB.done + 1 : 1000;
	return g_sb_text;
}
char *sbuf_buf(struct sbuf *sb)
{
	__CPROVER_assert(sb == &g_sbuf_obj && SB.live > 0, "sbuf_buf: a live string buffer");
	return g_sb_text;
}
/* lbuf_cp appends whole lines: the next line of the range, nothing else */
void sbuf_str(struct sbuf *sb, char *s)
{
	__CPROVER_assert(sb == &g_sbuf_obj && SB.live > 0, "sbuf_str: a live string buffer");
	if (g_cp_lb) {
		if (!(0 <= SB.next_line && SB.next_line < g_cp_lb->ln_n) || s != g_cp_lb->ln[SB.next_line])
			SB.bad = 1;
		SB.next_line = SB.next_line < 0x7ffffff0 ? SB.next_line + 1 : SB.next_line;
	}
	SB.str_calls = SB.str_calls < 0x7ffffff0 ? SB.str_calls + 1 : SB.str_calls;
}
/* lbuf_rd appends the chunk just read */
void sbuf_mem(struct sbuf *sb, char *s, int len)
{
	__CPROVER_assert(sb == &g_sbuf_obj && SB.live > 0 && len >= 0, "sbuf_mem: a live string buffer, non-negative length");
	__CPROVER_assert(len == 0 || __CPROVER_r_ok(s, len), "sbuf_mem: source readable for len bytes");
	SB.last_src = s;
	SB.mem_total = SB.mem_total < 0x3fffffffffffL ? SB.mem_total + len : SB.mem_total;
	SB.mem_calls = SB.mem_calls < 0x7ffffff0 ? SB.mem_calls + 1 : SB.mem_calls;
}

char *lbuf_cp_contract(struct lbuf *lb, int beg, int end)
__CPROVER_requires(__CPROVER_is_fresh(lb, sizeof(*lb)) && 0 <= lb->ln_n && lb->ln_n < lb->ln_sz && lb->ln_sz <= MAXLINES)
__CPROVER_requires(__CPROVER_is_fresh(lb->ln, sizeof(char *) * lb->ln_sz) && g_cp_lb == lb)
/* callers (ex_yank after ex_region, lbuf_opt, vi's lbuf_region) pass 0 <= beg <= end; end may lie beyond the buffer */
__CPROVER_requires(0 <= beg && beg <= end && SB.next_line == beg && !SB.bad && SB.live == 0 && SB.done == 0 && SB.str_calls == 0)
__CPROVER_assigns(SB)
__CPROVER_ensures(__CPROVER_return_value == g_sb_text && SB.live == 0 && SB.done == 1)
/* exactly the lines [beg, min(end, ln_n)) were appended, each once, in order; nothing outside the buffer is touched */
__CPROVER_ensures(!SB.bad && SB.str_calls == ((end < lb->ln_n ? end : lb->ln_n) > beg ? (end < lb->ln_n ? end : lb->ln_n) - beg : 0))
;

void h_lbuf_cp(void)
{
	struct lbuf *lb;
	int beg, end;
	LB_GHOST_INIT();
	g_cp_lb = nondet_ptr();
	SB.next_line = nondet_int(); SB.bad = 0; SB.live = 0; SB.done = 0; SB.str_calls = 0; SB.made = 0; SB.freed = 0;
	lbuf_cp(lb, beg, end);
#ifdef CANARY
	__CPROVER_assert(0, "canary");
#endif
}

/* ---- lbuf_edit: clamp, no-op, or exactly log-then-splice with the same arguments ---- */
struct ghost_ed { int opt_calls, rep_calls; char *opt_buf, *rep_buf; int opt_pos, opt_ndel, rep_pos, rep_ndel; int order_ok; } ED;
void lbuf_opt_rec_contract(struct lbuf *lb, char *buf, int pos, int n_del)
__CPROVER_requires(lb != 0 && 0 <= pos && 0 <= n_del && pos + n_del <= lb->ln_n)
__CPROVER_assigns(ED)
__CPROVER_ensures(ED.opt_calls == __CPROVER_old(ED.opt_calls) + 1 && ED.opt_buf == buf && ED.opt_pos == pos && ED.opt_ndel == n_del &&
	ED.rep_calls == __CPROVER_old(ED.rep_calls) && ED.order_ok == (__CPROVER_old(ED.rep_calls) == 0))
;
void lbuf_replace_rec_contract(struct lbuf *lb, char *s, int pos, int n_del)
__CPROVER_requires(lb != 0 && 0 <= pos && 0 <= n_del && pos + n_del <= lb->ln_n)
__CPROVER_assigns(ED.rep_calls, ED.rep_buf, ED.rep_pos, ED.rep_ndel)
__CPROVER_ensures(ED.rep_calls == __CPROVER_old(ED.rep_calls) + 1 && ED.rep_buf == s && ED.rep_pos == pos && ED.rep_ndel == n_del)
;
void lbuf_edit_contract(struct lbuf *lb, char *buf, int beg, int end)
__CPROVER_requires(__CPROVER_is_fresh(lb, sizeof(*lb)) && 0 <= lb->ln_n && lb->ln_n <= MAXLINES)
/* every caller passes 0 <= beg <= end (validated ranges; end may be past the buffer: it is clamped) */
__CPROVER_requires(0 <= beg && beg <= end && ED.opt_calls == 0 && ED.rep_calls == 0)
__CPROVER_assigns(ED)
/* nothing to do: no log entry, no splice */
__CPROVER_ensures(((beg >= lb->ln_n ? lb->ln_n : beg) == (end > lb->ln_n ? lb->ln_n : end) && buf == 0) ==> (ED.opt_calls == 0 && ED.rep_calls == 0))
/* otherwise: every splice first logs the deleted and inserted text - one log entry, then one splice, same clamped arguments */
__CPROVER_ensures(!((beg >= lb->ln_n ? lb->ln_n : beg) == (end > lb->ln_n ? lb->ln_n : end) && buf == 0) ==> (
	ED.opt_calls == 1 && ED.rep_calls == 1 && ED.order_ok && ED.opt_buf == buf && ED.rep_buf == buf &&
	ED.opt_pos == (beg > lb->ln_n ? lb->ln_n : beg) && ED.rep_pos == ED.opt_pos &&
	ED.opt_ndel == (end > lb->ln_n ? lb->ln_n : end) - ED.opt_pos && ED.rep_ndel == ED.opt_ndel))
;
void h_lbuf_edit(void)
{
	struct lbuf *lb;
	char *buf = nondet_bool() ? g_sb_text : (char *) 0;
	int beg, end;
	LB_GHOST_INIT();
	ED.opt_calls = 0; ED.rep_calls = 0; ED.order_ok = 0;
	lbuf_edit(lb, buf, beg, end);
#ifdef CANARY
	__CPROVER_assert(0, "canary");
#endif
}

/* ---- lbuf_rd: chunks are appended in order; one splice at EOF; a read error leaves the buffer alone ---- */
struct ghost_rd { long total; int calls; int eof; int err; int edit_calls; char *edit_buf; int edit_beg, edit_end; long edit_total; int bad; } RD;
/* STUB: read(2) - returns -1, 0 (EOF) or any count 1..n at every call; records the stream length */
ssize_t read(int fd, void *buf, size_t n)
{
	__CPROVER_assert(__CPROVER_w_ok(buf, n), "read: buffer writable for n bytes");
	__CPROVER_assert(!RD.eof && !RD.err, "lbuf_rd: no read after EOF or an error");
	long r = nondet_long();
	__CPROVER_assume(-1 <= r && r <= (long) n);
	RD.calls = RD.calls < 0x7ffffff0 ? RD.calls + 1 : RD.calls;
	if (r < 0)
		RD.err = 1;
	else if (r == 0)
		RD.eof = 1;
	else {
		__CPROVER_havoc_object(buf);
		RD.total = RD.total < 0x3fffffffffffL ? RD.total + r : RD.total;
	}
	return r;
}
void lbuf_edit_rd_contract(struct lbuf *lb, char *buf, int beg, int end)
__CPROVER_requires(lb != 0 && buf != 0)
__CPROVER_assigns(RD.edit_calls, RD.edit_buf, RD.edit_beg, RD.edit_end, RD.edit_total)
__CPROVER_ensures(RD.edit_calls == __CPROVER_old(RD.edit_calls) + 1 && RD.edit_buf == buf && RD.edit_beg == beg && RD.edit_end == end && RD.edit_total == SB.mem_total)
;
int lbuf_rd_contract(struct lbuf *lbuf, int fd, int beg, int end)
__CPROVER_requires(lbuf != 0 && RD.calls == 0 && RD.total == 0 && !RD.eof && !RD.err && RD.edit_calls == 0 &&
	SB.live == 0 && SB.mem_total == 0 && SB.mem_calls == 0 && SB.freed == 0 && g_cp_lb == 0)
__CPROVER_assigns(RD, SB)
__CPROVER_ensures(__CPROVER_return_value == 0 || __CPROVER_return_value == 1)
/* a failing read: reported, and the buffer is not touched */
__CPROVER_ensures(RD.err ==> (__CPROVER_return_value == 1 && RD.edit_calls == 0))
/* EOF: exactly one splice of the requested range with the accumulated text: every chunk, whatever its size (1..1024), appended once, in order */
__CPROVER_ensures(!RD.err ==> (__CPROVER_return_value == 0 && RD.eof && RD.edit_calls == 1 && RD.edit_buf == g_sb_text &&
	RD.edit_beg == beg && RD.edit_end == end && RD.edit_total == RD.total && SB.mem_total == RD.total))
/* the accumulation buffer is released on every path */
__CPROVER_ensures(SB.live == 0 && SB.freed == 1)
;
void h_lbuf_rd(void)
{
	struct lbuf *lb = (struct lbuf *) malloc(1);
	int fd, beg, end;
	LB_GHOST_INIT();
	g_cp_lb = 0;
	RD.calls = 0; RD.total = 0; RD.eof = 0; RD.err = 0; RD.edit_calls = 0;
	SB.live = 0; SB.mem_total = 0; SB.mem_calls = 0; SB.freed = 0; SB.made = 0; SB.done = 0; SB.bad = 0;
	lbuf_rd(lb, fd, beg, end);
#ifdef CANARY
	__CPROVER_assert(0, "canary");
#endif
}

/* ================================================================== lbuf_replace: BOUNDED functional check of the splice (C01, C04, C06, C15) */
/* The real lbuf_replace with the real malloc/memcpy/memmove/strchr/strlen (CBMC's models), on
 * every buffer of at most 2 lines (each at most 1 byte + newline) in a table of capacity 3 - so
 * that an insertion makes the table grow (3 -> 6) -, every text of at most 4 bytes (up to 2 lines,
 * last line with or without newline), every position and deletion count, every mark and glob value. */
#define B_MAXLN 2
static int b_streq(const char *a, const char *b, int n)
{
	int k;
	for (k = 0; k < n; k++)
		if (a[k] != b[k])
			return 0;
	return 1;
}
void h_lbuf_replace_bounded(void)
{
	struct lbuf *lb = malloc(sizeof(*lb));
	char old[B_MAXLN][4];	/* copies of the old lines */
	char oglob[B_MAXLN];
	int omark[NMARKS];
	char txt[5];
	int i, k, n = nondet_int(), pos = nondet_int(), n_del = nondet_int(), tl = nondet_int(), has_txt = nondet_bool();
	__CPROVER_assume(0 <= n && n <= B_MAXLN && 0 <= pos && pos <= n && 0 <= n_del && n_del <= n - pos);
	lb->ln_n = n;
	lb->ln_sz = 3;
	lb->ln = malloc(3 * sizeof(char *));
	lb->ln_glob = malloc(3);
	for (i = 0; i < B_MAXLN; i++) {
		int l = nondet_int();
		__CPROVER_assume(0 <= l && l <= 1);
		for (k = 0; k < l; k++) {
			old[i][k] = nondet_char();
			__CPROVER_assume(old[i][k] != 0 && old[i][k] != '\n');
		}
		old[i][l] = '\n';
		old[i][l + 1] = 0;
		if (i < n) {
			lb->ln[i] = malloc(l + 2);
			for (k = 0; k < l + 2; k++)
				lb->ln[i][k] = old[i][k];
			lb->ln_glob[i] = oglob[i] = nondet_char();
		}
	}
	for (i = 0; i < NMARKS; i++) {
		lb->mark[i] = omark[i] = nondet_int();
		__CPROVER_assume(-1 <= omark[i] && omark[i] < n);
		lb->mark_off[i] = 0;
	}
	__CPROVER_assume(0 <= tl && tl <= 4);
	for (k = 0; k < 4; k++) {
		txt[k] = nondet_char();
		__CPROVER_assume(k >= tl || txt[k] != 0);
	}
	txt[tl] = 0;
	/* reference: split the text into lines, each re-terminated by exactly one newline */
	char want[4][8];
	int n_ins = 0, p = 0;
	if (has_txt)
		while (p < tl && n_ins < 4) {
			int q = 0;
			while (p < tl && txt[p] != '\n')
				want[n_ins][q++] = txt[p++];
			if (p < tl)
				p++;	/* the newline */
			want[n_ins][q++] = '\n';
			want[n_ins][q] = 0;
			n_ins++;
		}
	__CPROVER_assume(n_ins <= 2);
	char *oldptr[B_MAXLN];
	for (i = 0; i < B_MAXLN; i++)
		oldptr[i] = i < n ? lb->ln[i] : (char *) 0;
	lbuf_replace(lb, has_txt ? txt : (char *) 0, pos, n_del);
	/* the splice law */
	H_ASSERT(lb->ln_n == n + n_ins - n_del, "lbuf_replace: new line count = old - deleted + inserted");
	H_ASSERT(lb->ln_n < lb->ln_sz, "lbuf_replace: the table keeps a spare slot");
	for (i = 0; i < B_MAXLN; i++) {
		if (i < pos)
			H_ASSERT(lb->ln[i] == oldptr[i] && lb->ln_glob[i] == oglob[i], "lbuf_replace: lines before the range keep their place, bytes and global mark");
		if (i >= pos + n_del && i < n)
			H_ASSERT(lb->ln[i + n_ins - n_del] == oldptr[i] && lb->ln_glob[i + n_ins - n_del] == oglob[i],
				"lbuf_replace: lines after the range keep their bytes, order and global mark, shifted by inserted - deleted");
		if (i < n_ins) {
			H_ASSERT(b_streq(lb->ln[pos + i], want[i], 8 > 0 ? (int) strlen(want[i]) + 1 : 0), "lbuf_replace: the inserted lines are the lines of the text, each ended by exactly one newline");
			if (i >= n_del)
				H_ASSERT(lb->ln_glob[pos + i] == 0, "lbuf_replace: lines created beyond the replaced count start without global marks");
		}
	}
	/* marks travel with their lines */
	for (i = 0; i < NMARKS_BASE; i++) {
		if (omark[i] >= 0 && omark[i] < pos)
			H_ASSERT(lb->mark[i] == omark[i], "lbuf_replace: a mark before the range is unchanged");
		if (omark[i] >= pos + n_del)
			H_ASSERT(lb->mark[i] == omark[i] + n_ins - n_del, "lbuf_replace: a mark after the range follows its line");
		if (omark[i] >= pos && omark[i] < pos + n_del)
			H_ASSERT(lb->mark[i] == (!has_txt ? -1 : omark[i] >= pos + n_ins ? pos + n_ins - 1 : omark[i]) || (has_txt && n_ins == 0 && lb->mark[i] == pos - 1),
				"lbuf_replace: a mark on a deleted line is dropped on pure deletion, clamped into the replacement otherwise");
	}
#ifdef CANARY
	__CPROVER_assert(0, "canary");
#endif
}

/* ================================================================== lbuf_opt: every splice first logs the deleted and inserted text (C04, C02) */
int g_LC;		/* what linecount() answers for the inserted text */
char g_cp_text[2], g_dup_text[2];
int g_lopt_done_calls;
int linecount_contract(char *s)
__CPROVER_requires(1)
__CPROVER_assigns()
__CPROVER_ensures(__CPROVER_return_value == g_LC)
;
char *lbuf_cp_opt_contract(struct lbuf *lb, int beg, int end)
__CPROVER_requires(lb != 0 && 0 <= beg && beg <= end && end <= lb->ln_n)
__CPROVER_assigns()
__CPROVER_ensures(__CPROVER_return_value == g_cp_text)
;
/* STUB: uc_dup - a fresh copy (here: a ghost object standing for it) */
char *uc_dup(char *s)
{
	__CPROVER_assert(s != 0, "uc_dup: argument is not NULL");
	return g_dup_text;
}
void lopt_done_opt_contract(struct lopt *lo)
__CPROVER_requires(lo != 0)
__CPROVER_assigns(g_lopt_done_calls)
__CPROVER_ensures(g_lopt_done_calls == __CPROVER_old(g_lopt_done_calls) + 1)
;
void lbuf_savemark_contract(struct lbuf *lb, struct lopt *lo, int m)
__CPROVER_requires(lb != 0 && lo != 0 && 0 <= m && m < NMARKS)
__CPROVER_assigns(lo->mark, lo->mark_off)
;

char g_oldbyte;
void lbuf_opt_contract(struct lbuf *lb, char *buf, int pos, int n_del)
__CPROVER_requires(HIST_PRE(lb) && lb->hist_sz <= MAXHIST / 2)
__CPROVER_requires(0 <= lb->ln_n && lb->ln_n <= MAXLINES && 0 <= pos && pos <= lb->ln_n && 0 <= n_del && n_del <= lb->ln_n - pos)
__CPROVER_requires(0 <= g_LC && g_LC <= MAXLINES && 0 <= g_lopt_done_calls && g_lopt_done_calls < 1000)
/* case split on the capacity test (the two units together cover every state) */
#ifdef OPT_NOGROW
__CPROVER_requires(lb->hist_u < lb->hist_sz)
#endif
#ifdef OPT_GROW
__CPROVER_requires(lb->hist_u == lb->hist_sz)
#endif
/* witness byte of the part of the history below the undo cursor */
__CPROVER_requires((0 <= g_mw && g_mw < (long) lb->hist_u * (long) sizeof(struct lopt)) ==> g_oldbyte == ((char *) lb->hist)[g_mw])
__CPROVER_assigns(lb->hist, lb->hist_sz, lb->hist_n, lb->hist_u, g_lopt_done_calls, __CPROVER_object_upto(lb->mark, sizeof(lb->mark)), __CPROVER_object_upto(lb->mark_off, sizeof(lb->mark_off));
	lb->hist != 0: __CPROVER_object_whole(lb->hist))
__CPROVER_frees(lb->hist)
/* the redo branch above the undo cursor is discarded (each of its entries released), one entry is appended at the cursor */
__CPROVER_ensures(lb->hist_n == __CPROVER_old(lb->hist_u) + 1 && lb->hist_u == lb->hist_n && lb->hist_n <= lb->hist_sz && lb->hist != 0)
__CPROVER_ensures(g_lopt_done_calls == __CPROVER_old(g_lopt_done_calls) + (__CPROVER_old(lb->hist_n) - __CPROVER_old(lb->hist_u)))
/* the entry records the splice and carries the current sequence number */
__CPROVER_ensures(lb->hist[lb->hist_n - 1].pos == pos && lb->hist[lb->hist_n - 1].n_del == n_del && lb->hist[lb->hist_n - 1].seq == lb->useq)
__CPROVER_ensures(lb->hist[lb->hist_n - 1].del == (n_del ? g_cp_text : (char *) 0))
__CPROVER_ensures(lb->hist[lb->hist_n - 1].ins == (buf ? g_dup_text : (char *) 0) && lb->hist[lb->hist_n - 1].n_ins == (buf ? g_LC : 0))
/* the history below the cursor is kept, byte for byte, also when the table grows */
__CPROVER_ensures((0 <= g_mw && g_mw < (long) __CPROVER_old(lb->hist_u) * (long) sizeof(struct lopt)) ==> ((char *) lb->hist)[g_mw] == g_oldbyte)
;

void h_lbuf_opt(void)
{
	struct lbuf *lb;
	char *buf = nondet_bool() ? g_sb_text : (char *) 0;
	int pos, n_del;
	LB_GHOST_INIT();
	g_LC = nondet_int(); g_lopt_done_calls = nondet_int(); g_oldbyte = nondet_char();
	lbuf_opt(lb, buf, pos, n_del);
#ifdef CANARY
	__CPROVER_assert(0, "canary");
#endif
}

/* ================================================================== lbuf_opt: BOUNDED check of the logged entry and of history preservation (C04) */
/* real lbuf_opt with CBMC's malloc/memcpy/memset models; history tables of capacity 0 or 2 (so that
 * appending makes them grow 0 -> 128 and 2 -> 4), up to 2 entries, every undo cursor, every mark value */
void lbuf_opt_frame_contract(struct lbuf *lb, char *buf, int pos, int n_del)
__CPROVER_requires(lb != 0)
__CPROVER_assigns(lb->hist, lb->hist_sz, lb->hist_n, lb->hist_u, g_lopt_done_calls, __CPROVER_object_upto(lb->mark, sizeof(lb->mark)), __CPROVER_object_upto(lb->mark_off, sizeof(lb->mark_off));
	lb->hist != 0: __CPROVER_object_whole(lb->hist))
__CPROVER_frees(lb->hist)
;
void h_lbuf_opt_bounded(void)
{
	struct lbuf *lb = malloc(sizeof(*lb));
	int i, pos = nondet_int(), n_del = nondet_int(), has_buf = nondet_bool();
	struct lopt old[2];
	LB_GHOST_INIT();
	lb->ln_n = nondet_int();
	__CPROVER_assume(0 <= lb->ln_n && lb->ln_n <= 4 && 0 <= pos && pos <= lb->ln_n && 0 <= n_del && n_del <= lb->ln_n - pos);
	lb->hist_sz = 2;
	lb->hist = lb->hist_sz ? malloc(2 * sizeof(struct lopt)) : (struct lopt *) 0;
	lb->hist_n = nondet_int(); lb->hist_u = nondet_int();
	__CPROVER_assume(0 <= lb->hist_u && lb->hist_u <= lb->hist_n && lb->hist_n <= lb->hist_sz);
	lb->useq = nondet_int();
	for (i = 0; i < 2; i++)
		if (i < lb->hist_n) {
			lb->hist[i].ins = lb->hist[i].del = 0;
			lb->hist[i].mark = lb->hist[i].mark_off = 0;
			lb->hist[i].pos = nondet_int(); lb->hist[i].n_ins = nondet_int(); lb->hist[i].n_del = nondet_int();
			lb->hist[i].pos_off = nondet_int(); lb->hist[i].seq = nondet_int();
			old[i] = lb->hist[i];
		}
	for (i = 0; i < NMARKS; i++) {
		lb->mark[i] = -1;	/* unset */
		lb->mark_off[i] = 0;
	}
	/* three marks (first, a middle one, last of the saved range) take any value */
	lb->mark[0] = nondet_int(); lb->mark_off[0] = nondet_int();
	lb->mark[5] = nondet_int(); lb->mark_off[5] = nondet_int();
	lb->mark[NMARKS_BASE - 1] = nondet_int(); lb->mark_off[NMARKS_BASE - 1] = nondet_int();
	g_lopt_done_calls = 0;
	int u0 = lb->hist_u, n0 = lb->hist_n, done0 = g_lopt_done_calls;
	g_LC = nondet_int();
	lbuf_opt(lb, has_buf ? g_sb_text : (char *) 0, pos, n_del);
	H_ASSERT(lb->hist_n == u0 + 1 && lb->hist_u == lb->hist_n && lb->hist_n <= lb->hist_sz, "lbuf_opt: the redo branch is discarded and one entry appended at the undo cursor");
	H_ASSERT(g_lopt_done_calls == done0 + (n0 - u0), "lbuf_opt: every entry of the discarded redo branch is released");
	struct lopt *lo = &lb->hist[u0];
	H_ASSERT(lo->pos == pos && lo->n_del == n_del && lo->seq == lb->useq, "lbuf_opt: the entry records position, deleted count and the current sequence number");
	H_ASSERT(lo->del == (n_del ? g_cp_text : (char *) 0) && lo->ins == (has_buf ? g_dup_text : (char *) 0) && lo->n_ins == (has_buf ? g_LC : 0),
		"lbuf_opt: the entry holds the deleted text, a copy of the inserted text and its line count");
	for (i = 0; i < 2; i++)
		if (i < u0)
			H_ASSERT(lb->hist[i].pos == old[i].pos && lb->hist[i].n_ins == old[i].n_ins && lb->hist[i].n_del == old[i].n_del &&
				lb->hist[i].seq == old[i].seq && lb->hist[i].pos_off == old[i].pos_off && lb->hist[i].ins == old[i].ins && lb->hist[i].del == old[i].del &&
				lb->hist[i].mark == old[i].mark && lb->hist[i].mark_off == old[i].mark_off,
				"lbuf_opt: the history below the undo cursor is kept, field for field, also when the table grows");
#ifdef CANARY
	__CPROVER_assert(0, "canary");
#endif
}
