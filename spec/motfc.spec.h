/* contract, ghost state and harness for lbuf_findchar (C07: f F t T ; ,  -  C08: the motion target of d/c/y f<x>) */
/* The line is abstract: NC characters of 1..4 bytes each in L bytes, any content.  The uc.c helpers
 * enter as stubs with their contracts from the uc units (next/prev are inverse and step exactly one
 * character; uc_chr/uc_off convert between character index and position).  The stubs keep the
 * character index of the scan position as ghost state, and uc_code() answers any code for the
 * character under the scan, so that the harness knows which visited characters were occurrences. */
int xic;
#define MAXLINE 0x7ffffff0L
int g_n0;
struct rstr;
struct rstr *rstr_make(char *re, int flg) { return 0; }
void rstr_free(struct rstr *rs) { }
int rstr_find(struct rstr *rs, char *s, int n, int *grps, int flg) { return -1; }
int lbuf_len(struct lbuf *lb) { return 0; }

struct ghost_fc_in { long L; int NC; int off0; long b0; int deff; int target; char *ln; char *cs; int row; } FI;	/* constants */
struct ghost_fc { char *cur, *prev; int ci, lastdir; int matches, last_match_ci, last_exam_ci, exams; int bad; } FC;

char *lbuf_get(struct lbuf *lb, int pos)
{
	__CPROVER_assert(pos == FI.row, "lbuf_findchar: the cursor line is looked at");
	return FI.ln;
}
char *uc_chr(char *s, int off)
{
	__CPROVER_assert(s == FI.ln && off == FI.off0, "lbuf_findchar: the scan starts at the cursor character");
	FC.cur = s + FI.b0;
	FC.ci = off;
	FC.lastdir = 0;
	return FC.cur;
}
/* one character forward: 1..4 bytes, never past the terminator; the terminator is reached exactly after the last character */
char *uc_next(char *s)
{
	__CPROVER_assert(s == FC.cur && FC.ci < FI.NC, "uc_next: called on the scan position, which is not the terminator");
	char *r;
	if (FC.lastdir < 0) {
		r = FC.prev;		/* next(prev(s)) == s */
	} else {
		long w = nondet_long();
		__CPROVER_assume(1 <= w && w <= 4 && __CPROVER_POINTER_OFFSET(s) + w <= FI.L);
		r = s + w;
		__CPROVER_assume((__CPROVER_POINTER_OFFSET(r) == FI.L) == (FC.ci + 1 == FI.NC));
		__CPROVER_assume((r[0] == 0) == (__CPROVER_POINTER_OFFSET(r) == FI.L));
	}
	FC.prev = s;
	FC.cur = r;
	FC.ci++;
	FC.lastdir = FC.lastdir < 0 ? 0 : 1;
	return r;
}
char *uc_prev(char *beg, char *s)
{
	__CPROVER_assert(beg == FI.ln && s == FC.cur && FC.ci > 0, "uc_prev: called on the scan position, which is not the line start");
	char *r;
	if (FC.lastdir > 0) {
		r = FC.prev;		/* prev(next(s)) == s */
	} else {
		long w = nondet_long();
		__CPROVER_assume(1 <= w && w <= 4 && w <= __CPROVER_POINTER_OFFSET(s));
		r = s - w;
		__CPROVER_assume((r == FI.ln) == (FC.ci - 1 == 0));
		__CPROVER_assume(r[0] != 0);	/* the only NUL is the terminator */
	}
	FC.prev = s;
	FC.cur = r;
	FC.ci--;
	FC.lastdir = FC.lastdir > 0 ? 0 : -1;
	return r;
}
int uc_code(char *s)
{
	if (s == FI.cs)
		return FI.target;
	__CPROVER_assert(s == FC.cur, "lbuf_findchar: the character compared is the one under the scan");
	/* every character from the cursor outwards is examined exactly once, none skipped */
	if (FC.ci != FC.last_exam_ci + FI.deff)
		FC.bad = 1;
	FC.last_exam_ci = FC.ci;
	FC.exams++;
	int c = nondet_int();
	if (c == FI.target) {
		FC.matches++;
		FC.last_match_ci = FC.ci;
	}
	return c;
}
int uc_off(char *s, int off)
{
	__CPROVER_assert(s == FI.ln && s + off == FC.cur, "lbuf_findchar: the offset reported is that of the scan position");
	return FC.ci;
}

int lbuf_findchar_frame_contract(struct lbuf *lb, char *cs, int cmd, int n, int *row, int *off)
__CPROVER_requires(row != 0 && off != 0)
__CPROVER_assigns(*off, FC)
;
#pragma CPROVER check push
#pragma CPROVER check disable "pointer"
#pragma CPROVER check disable "pointer-primitive"
#pragma CPROVER check disable "signed-overflow"
#pragma CPROVER check disable "bounds"
int inv_findchar(char *s, int n, int n0)
{
	long o = __CPROVER_POINTER_OFFSET(s);
	long po = __CPROVER_POINTER_OFFSET(FC.prev);
	return s == FC.cur && __CPROVER_same_object(s, FI.ln) && 0 <= o && o < FI.L &&
		0 <= FC.ci && FC.ci < FI.NC && (o == 0) == (FC.ci == 0) && s[0] != 0 &&
		(FC.exams > 0 ==> (__CPROVER_same_object(FC.prev, FI.ln) && 0 <= po && po < FI.L && FC.prev[0] != 0 && (po == 0) == (FC.ci - FI.deff == 0) && (FI.deff > 0 ? po < o : po > o))) &&
		0 <= n && n <= n0 && FC.matches == n0 - n && !FC.bad &&
		FC.last_exam_ci == FC.ci && 0 <= FC.exams && FC.exams <= FI.NC && FC.ci == FI.off0 + FC.exams * FI.deff &&
		(FC.exams == 0 ? FC.lastdir == 0 : FC.lastdir == FI.deff) &&
		(FC.matches > 0 ==> (FC.exams > 0)) &&
		(n < n0 && n == 0 ==> FC.last_match_ci == FC.ci);
}
int dec_findchar(void)
{
	return FI.deff > 0 ? FI.NC - FC.ci : FC.ci;
}
#pragma CPROVER check pop

void h_lbuf_findchar(void)
{
	int cmd = nondet_int(), n = nondet_int(), row = nondet_int(), off = nondet_int();
	char cs[5];
	GHOST_INIT();
	FI.L = nondet_long(); FI.NC = nondet_int(); FI.b0 = nondet_long(); FI.target = nondet_int();
	__CPROVER_assume(1 <= FI.L && FI.L <= MAXLINE && 1 <= FI.NC && FI.NC <= FI.L);
	__CPROVER_assume(cmd == 'f' || cmd == 'F' || cmd == 't' || cmd == 'T');
	/* the cursor is on an existing character of the line */
	__CPROVER_assume(0 <= off && off < FI.NC && 0 <= FI.b0 && FI.b0 < FI.L && (FI.b0 == 0) == (off == 0));
	__CPROVER_assume(n != 0 && n > -0x7fffffff);
	int has_line = nondet_bool();
	FI.ln = has_line ? malloc(FI.L + 1) : (char *) 0;
	if (has_line) {
		FI.ln[FI.L] = 0;
		__CPROVER_assume(FI.ln[FI.b0] != 0);
	}
	FI.cs = cs; FI.row = row; FI.off0 = off;
	int base = (cmd == 'f' || cmd == 't') ? 1 : -1;
	FI.deff = n < 0 ? -base : base;
	int n0 = n < 0 ? -n : n;
	FC.cur = FC.prev = 0; FC.ci = 0; FC.lastdir = 0; FC.matches = 0; FC.last_match_ci = -1; FC.last_exam_ci = off; FC.exams = 0; FC.bad = 0;
	g_n0 = n0;
	int row0 = row;
	int ret = lbuf_findchar((struct lbuf *) 0, cs, cmd, n, &row, &off);
	H_ASSERT(row == row0, "lbuf_findchar: the motion stays on its line");
	if (!has_line) {
		H_ASSERT(ret == 1 && off == FI.off0, "lbuf_findchar: no such line - the motion fails and leaves the cursor in place");
		return;
	}
	H_ASSERT(!FC.bad, "lbuf_findchar: every character from the cursor outwards is examined once, in order");
	if (ret) {
		H_ASSERT(off == FI.off0, "lbuf_findchar: a failing motion leaves the cursor in place");
		H_ASSERT(FC.matches < n0 && (FI.deff > 0 ? FC.ci == FI.NC : FC.ci == 0), "lbuf_findchar: the motion fails only when fewer than count occurrences lie between the cursor and the end of the line in that direction");
	} else {
		H_ASSERT(FC.matches == n0 && FC.last_match_ci == FC.last_exam_ci, "lbuf_findchar: the scan stops on the count-th occurrence");
		if (cmd == 'f' || cmd == 'F')
			H_ASSERT(off == FC.last_match_ci, "lbuf_findchar: f/F land on the count-th occurrence of the character in their direction");
		else
			H_ASSERT(off == FC.last_match_ci - FI.deff, "lbuf_findchar: t/T land on the character just before the count-th occurrence, seen from the cursor");
		H_ASSERT(0 <= off && off < FI.NC, "lbuf_findchar: the cursor is on an existing character of the line");
	}
#ifdef CANARY
	__CPROVER_assert(0, "canary");
#endif
}
