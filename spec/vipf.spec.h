/* vi_yankbuf / vi_prefix: "x names a register, a number starting with 1..9 is the count; the first key that belongs to neither is left for the command (C08, C09) */
#define PF_MAX 5
struct ghost_pf_in { int keys[PF_MAX + 1]; } PFI;
struct ghost_pf { int reads, backs, back_key; } PF;
static int vi_read(void)
{
	int k = PF.reads < PF_MAX ? PFI.keys[PF.reads] : PFI.keys[PF_MAX];
	PF.reads++;
	return k;
}
static void vi_back(int c) { PF.backs++; PF.back_key = c; }
static void pf_init(void)
{
	int i;
	for (i = 0; i <= PF_MAX; i++) {
		PFI.keys[i] = nondet_int();
		__CPROVER_assume(-1 <= PFI.keys[i] && PFI.keys[i] < 256);
	}
	PF.reads = PF.backs = 0;
}
void h_vi_yankbuf(void)
{
	pf_init();
	int r = vi_yankbuf();
	int *k = PFI.keys;
	if (k[0] != '"')
		H_ASSERT(r == 0 && PF.reads == 1 && PF.backs == 1 && PF.back_key == k[0], "vi_yankbuf: a key that is not \" names no register and is left for the command");
	else if (k[1] != '\\')
		H_ASSERT(r == k[1] && PF.reads == 2 && PF.backs == 0, "vi_yankbuf: \"x names register x");
	else
		H_ASSERT(r == (0x80 | k[2]) && PF.reads == 3 && PF.backs == 0, "vi_yankbuf: \"\\x names the register above 127");
#ifdef CANARY
	__CPROVER_assert(0, "canary");
#endif
}
void h_vi_prefix(void)
{
	int i;
	pf_init();
	/* at most PF_MAX - 1 digits (the digit loop is unwound) */
	__CPROVER_assume(!(PFI.keys[PF_MAX - 1] >= '0' && PFI.keys[PF_MAX - 1] <= '9'));
	int r = vi_prefix();
	int *k = PFI.keys;
	int n = 0, d = 0, stop = 0;
	if (k[0] >= '1' && k[0] <= '9')
		for (i = 0; i < PF_MAX; i++)
			if (!stop) {
				if (k[i] >= '0' && k[i] <= '9') {
					n = n * 10 + (k[i] - '0');
					d++;
				} else
					stop = 1;
			}
	H_ASSERT(r == n, "vi_prefix: the count is the decimal number typed (it starts with 1..9; none typed = 0)");
	H_ASSERT(PF.reads == d + 1 && PF.backs == 1 && PF.back_key == k[d], "vi_prefix: the first key that is not part of the number is left for the command");
#ifdef CANARY
	__CPROVER_assert(0, "canary");
#endif
}
