/* proof units for /repo/mot.c - the real file, included verbatim */
#include "pre.h"
#include "mot.c"
#include "libc.spec.h"
#include "mot.spec.h"
