/* contracts for /repo/reg.c (C08: registers) */
int xrow, xoff;
struct lbuf *ex_lbuf(void) { return 0; }
char *lbuf_get(struct lbuf *lb, int pos) { return 0; }
int snprintf(char *s, size_t n, const char *f, ...) { if (n) s[0] = 0; return 0; }

/* string callee contracts as recording stubs: the text is identified by its pointer */
struct ghost_reg { int has_nl; long len_a, len_b; char *cpy_dst, *cpy_src, *cat_dst, *cat_src; int n; int rc[12]; char *rs[12]; int rl[12]; } RG;
size_t strlen(const char *s)
{
	__CPROVER_assert(s != 0, "strlen: argument is not NULL");
	size_t n = nondet_ulong();
	__CPROVER_assume(n <= 0x3fffffff);
	return n;
}
char *strchr(const char *s, int c)
{
	__CPROVER_assert(s != 0, "strchr: argument is not NULL");
	return RG.has_nl ? (char *) s : (char *) 0;
}
char *strcpy(char *d, const char *s)
{
	__CPROVER_assert(d != 0 && s != 0, "strcpy: arguments are not NULL");
	RG.cpy_dst = d;
	RG.cpy_src = (char *) s;
	return d;
}
char *strcat(char *d, const char *s)
{
	__CPROVER_assert(d != 0 && s != 0, "strcat: arguments are not NULL");
	RG.cat_dst = d;
	RG.cat_src = (char *) s;
	return d;
}

/* ---- reg_putraw: store, or append for an upper-case name ---- */
void h_reg_putraw(void)
{
	int c = nondet_int(), ln = nondet_int(), k = nondet_int();
	char s[2], oldtxt[2];
	GHOST_INIT();
	__CPROVER_assume(0 <= c && c < 256 && 0 <= k && k < 256);
	int lc = verif_tolower(c);
	char *old = nondet_bool() ? malloc(2) : (char *) 0;
	bufs[lc] = old;
	char *other = bufs[k];
	int other_ln = lnmode[k];
	RG.cpy_src = RG.cat_src = 0;
	reg_putraw(c, s, ln);
	H_ASSERT(0 <= lc && lc < 256, "reg_putraw: register index inside the table");
	H_ASSERT(bufs[lc] != 0 && bufs[lc] == RG.cpy_dst && RG.cat_dst == bufs[lc] && RG.cat_src == s, "reg_putraw: the register holds a fresh text ending in the text put");
	if (verif_ctype(c, _ISupper) && old)
		H_ASSERT(RG.cpy_src == old, "reg_putraw: an upper-case register name appends to the lower-case register");
	else
		H_ASSERT(RG.cpy_src != old || old == 0, "reg_putraw: any other name replaces the old contents");
	H_ASSERT(lnmode[lc] == ln, "reg_putraw: the line-wise flag is stored with the text");
	if (k != lc)
		H_ASSERT(bufs[k] == other && lnmode[k] == other_ln, "reg_putraw: every other register is untouched");
#ifdef CANARY
	__CPROVER_assert(0, "canary");
#endif
}

/* ---- reg_put: numbered-register rotation ---- */
/* reg_putraw as seen by reg_put: the g_w-th call is recorded (g_w is an arbitrary witness, so every call is checked) */
int g_w;
struct ghost_regw { int n; int wc; char *ws; int wl; } RW;
void reg_putraw_rec_contract(int c, char *s, int ln)
__CPROVER_requires(0 <= c && c < 256 && s != 0 && 0 <= RW.n && RW.n < 11)
__CPROVER_assigns(RW)
__CPROVER_ensures(RW.n == __CPROVER_old(RW.n) + 1)
__CPROVER_ensures(__CPROVER_old(RW.n) == g_w ? (RW.wc == c && RW.ws == s && RW.wl == ln) :
	(RW.wc == __CPROVER_old(RW.wc) && RW.ws == __CPROVER_old(RW.ws) && RW.wl == __CPROVER_old(RW.wl)))
;
void reg_put_frame_contract(int c, char *s, int ln)
__CPROVER_requires(s != 0)
__CPROVER_assigns(RW)
;
void h_reg_put(void)
{
	int c = nondet_int(), ln = nondet_int(), i;
	char s[2];
	char *otxt[10];
	int oln[10];
	GHOST_INIT();
	__CPROVER_assume(0 <= c && c < 256);
	RG.has_nl = nondet_bool();
	for (i = 1; i <= 9; i++) {
		otxt[i] = bufs['0' + i] = nondet_bool() ? malloc(1) : (char *) 0;
		oln[i] = lnmode['0' + i] = nondet_int();
	}
	RW.n = 0; RW.wc = -1; RW.ws = 0; RW.wl = 0;
	g_w = nondet_int();
	__CPROVER_assume(0 <= g_w && g_w < 10);
	reg_put(c, s, ln);
	int shifts = (ln || RG.has_nl) && (c == 0 || verif_ctype(c, _ISalpha));
	if (!shifts) {
		H_ASSERT(RW.n == 1, "reg_put: a character-wise single-line text, or a special register, is stored without touching the numbered registers");
		if (g_w == 0)
			H_ASSERT(RW.wc == c && RW.ws == s && RW.wl == ln, "reg_put: the text is stored in the register named, with its mode");
	} else {
		/* line deletions shift the numbered registers: 8 -> 9, ..., 1 -> 2 (each with its own text AND its own mode), then the new text lands in 1 and in the named register */
		int n = 0;
		for (i = 8; i > 0; i--)
			if (otxt[i]) {
				if (n == g_w)
					H_ASSERT(RW.wc == '0' + i + 1 && RW.ws == otxt[i] && RW.wl == oln[i], "reg_put: register i moves to i+1 with its own text and its own line-wise flag");
				n++;
			}
		H_ASSERT(RW.n == n + 2, "reg_put: every filled numbered register 1..8 is shifted once, then the text is stored twice");
		if (g_w == n)
			H_ASSERT(RW.wc == '1' && RW.ws == s && RW.wl == ln, "reg_put: the new text lands in register 1");
		if (g_w == n + 1)
			H_ASSERT(RW.wc == c && RW.ws == s && RW.wl == ln, "reg_put: and in the register that was named");
		/* vacuity guard for this branch: a shift with a filled register is a reachable case */
	}
#ifdef CANARY
	__CPROVER_assert(0, "canary");
#endif
}

/* ---- reg_get: what a register name reads (C08: "what a later put of that register inserts") ---- */
void h_reg_get(void)
{
	int c = nondet_int(), ln = -7;
	GHOST_INIT();
	__CPROVER_assume(0 <= c && c < 256 && c != ';' && c != '#' && c != '^');
	char *t0 = nondet_bool() ? malloc(1) : (char *) 0;
	char *tc = nondet_bool() ? malloc(1) : (char *) 0;
	bufs[0] = t0; lnmode[0] = nondet_int();
	if (c != 0) {
		bufs[c] = tc; lnmode[c] = nondet_int();
	}
	int want = c == '"' ? 0 : c;
	char *r = reg_get(c, &ln);
	H_ASSERT(r == bufs[want] && ln == lnmode[want], "reg_get: a register name reads that register's text and line-wise flag (\" is the unnamed register), exactly what reg_put stored");
	H_ASSERT(reg_get(c, (int *) 0) == bufs[want], "reg_get: the flag is optional");
#ifdef CANARY
	__CPROVER_assert(0, "canary");
#endif
}
