/* contracts for /repo/reg.c (C08: registers) */
int xrow, xoff;
struct lbuf *ex_lbuf(void) { return 0; }
char *lbuf_get(struct lbuf *lb, int pos) { return 0; }
int snprintf(char *s, size_t n, const char *f, ...) { if (n) s[0] = 0; return 0; }

/* string callee contracts as recording stubs: the text is identified by its pointer */
struct ghost_reg { int has_nl; long len_a, len_b; char *cpy_dst, *cpy_src, *cat_dst, *cat_src; int n; int rc[12]; char *rs[12]; int rl[12]; } RG;
size_t strlen(const char *s)
{
	__CPROVER_assert(s != 0, "strlen: argument is not NULL");
	size_t n = nondet_ulong();
	__CPROVER_assume(n <= 0x3fffffff);
	return n;
}
char *strchr(const char *s, int c)
{
	__CPROVER_assert(s != 0, "strchr: argument is not NULL");
	return RG.has_nl ? (char *) s : (char *) 0;
}
char *strcpy(char *d, const char *s)
{
	__CPROVER_assert(d != 0 && s != 0, "strcpy: arguments are not NULL");
	RG.cpy_dst = d;
	RG.cpy_src = (char *) s;
	return d;
}
char *strcat(char *d, const char *s)
{
	__CPROVER_assert(d != 0 && s != 0, "strcat: arguments are not NULL");
	RG.cat_dst = d;
	RG.cat_src = (char *) s;
	return d;
}

/* ---- reg_putraw: store, or append for an upper-case name ---- */
void h_reg_putraw(void)
{
	int c = nondet_int(), ln = nondet_int(), k = nondet_int();
	char s[2], oldtxt[2];
	GHOST_INIT();
	__CPROVER_assume(0 <= c && c < 256 && 0 <= k && k < 256);
	int lc = verif_tolower(c);
	char *old = nondet_bool() ? malloc(2) : (char *) 0;
	bufs[lc] = old;
	char *other = bufs[k];
	int other_ln = lnmode[k];
	RG.cpy_src = RG.cat_src = 0;
	reg_putraw(c, s, ln);
	__CPROVER_assert(0 <= lc && lc < 256, "reg_putraw: register index inside the table");
	__CPROVER_assert(bufs[lc] != 0 && bufs[lc] == RG.cpy_dst && RG.cat_dst == bufs[lc] && RG.cat_src == s, "reg_putraw: the register holds a fresh text ending in the text put");
	if (verif_ctype(c, _ISupper) && old)
		__CPROVER_assert(RG.cpy_src == old, "reg_putraw: an upper-case register name appends to the lower-case register");
	else
		__CPROVER_assert(RG.cpy_src != old || old == 0, "reg_putraw: any other name replaces the old contents");
	__CPROVER_assert(lnmode[lc] == ln, "reg_putraw: the line-wise flag is stored with the text");
	if (k != lc)
		__CPROVER_assert(bufs[k] == other && lnmode[k] == other_ln, "reg_putraw: every other register is untouched");
#ifdef CANARY
	__CPROVER_assert(0, "canary");
#endif
}

/* ---- reg_put: numbered-register rotation ---- */
void reg_putraw_rec_contract(int c, char *s, int ln)
__CPROVER_requires(0 <= c && c < 256 && s != 0 && 0 <= RG.n && RG.n < 11)
__CPROVER_assigns(RG.n, RG.rc[RG.n], RG.rs[RG.n], RG.rl[RG.n])
__CPROVER_ensures(RG.n == __CPROVER_old(RG.n) + 1 && RG.rc[__CPROVER_old(RG.n)] == c && RG.rs[__CPROVER_old(RG.n)] == s && RG.rl[__CPROVER_old(RG.n)] == ln)
;
void reg_put_frame_contract(int c, char *s, int ln)
__CPROVER_requires(s != 0)
__CPROVER_assigns(RG)
;
void h_reg_put(void)
{
	int c = nondet_int(), ln = nondet_int(), i;
	char s[2];
	char *otxt[10];
	int oln[10];
	GHOST_INIT();
	__CPROVER_assume(0 <= c && c < 256);
	RG.has_nl = nondet_bool();
	for (i = 1; i <= 9; i++) {
		otxt[i] = bufs['0' + i] = nondet_bool() ? malloc(1) : (char *) 0;
		oln[i] = lnmode['0' + i] = nondet_int();
	}
	RG.n = 0;
	reg_put(c, s, ln);
	int shifts = (ln || RG.has_nl) && (c == 0 || verif_ctype(c, _ISalpha));
	if (!shifts) {
		__CPROVER_assert(RG.n == 1 && RG.rc[0] == c && RG.rs[0] == s && RG.rl[0] == ln, "reg_put: a character-wise single-line text, or a special register, is stored without touching the numbered registers");
	} else {
		/* line deletions shift the numbered registers: 8 -> 9, ..., 1 -> 2 (each with its own text AND its own mode), then the new text lands in 1 and in the named register */
		int n = 0;
		for (i = 8; i > 0; i--)
			if (otxt[i]) {
				__CPROVER_assert(RG.rc[n] == '0' + i + 1 && RG.rs[n] == otxt[i] && RG.rl[n] == oln[i], "reg_put: register i moves to i+1 with its own text and its own line-wise flag");
				n++;
			}
		__CPROVER_assert(RG.n == n + 2 && RG.rc[n] == '1' && RG.rs[n] == s && RG.rl[n] == ln, "reg_put: the new text lands in register 1");
		__CPROVER_assert(RG.rc[n + 1] == c && RG.rs[n + 1] == s && RG.rl[n + 1] == ln, "reg_put: and in the register that was named");
	}
#ifdef CANARY
	__CPROVER_assert(0, "canary");
#endif
}
