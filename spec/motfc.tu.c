/* proof unit for lbuf_findchar in /repo/mot.c - the real file, included verbatim */
#include "pre.h"
#include "mot.c"
#include "libc.spec.h"
#include "motfc.spec.h"
