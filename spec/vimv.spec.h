/* vi_motion: every motion key runs its scanner, count times or until the scanner fails, with the
 * direction and flavour the key stands for; keys with a closed form set the offset directly (C07) */
static int verif_snprintf(char *s, unsigned long n) { if (n) s[0] = 0; return 0; }
int xrow, xoff, xtop;
static struct lbuf { int d; } g_mvlb;
struct lbuf *ex_lbuf(void) { return &g_mvlb; }
enum { F_NONE, F_NEXTCOL, F_NEXTOFF, F_WORDBEG, F_WORDEND, F_PARA, F_SECTION, F_FINDCHAR, F_SEARCH, F_PAIR };
struct ghost_mv_in { int key, key2, lnmv, ctx, has_char, fail_at, col2off, indents, eol, jump_fail, jump_row, jump_off, curword_fail; } VI_;	/* constants */
struct ghost_mv {
	int reads, backs, back_key;
	int fn, calls, a1, a2, a3; char *cs;	/* the scanner run, how often, its arguments */
	int failed, bad;
	int col_arg, col_calls, kwdset;
} MV;
static char g_mvline[2], g_mvchar[2];
char *lbuf_get(struct lbuf *lb, int pos) { return g_mvline; }
int dir_context(char *s) { return VI_.ctx; }
static int vi_read(void)
{
	MV.reads++;
	return MV.reads == 1 ? VI_.key : VI_.key2;
}
static void vi_back(int c) { MV.backs++; MV.back_key = c; }
static char *vi_char(void) { return VI_.has_char ? g_mvchar : (char *) 0; }
static int vi_motionln(int *row, int cmd) { return VI_.lnmv; }
/* a scanner call: the same scanner with the same arguments every time; it fails at call number VI_.fail_at (if that is reached); no call follows a failure */
static int scan(int fn, int a1, int a2, int a3, char *cs)
{
	if (MV.failed)
		MV.bad = 1;
	if (MV.calls == 0) {
		MV.fn = fn; MV.a1 = a1; MV.a2 = a2; MV.a3 = a3; MV.cs = cs;
	} else if (MV.fn != fn || MV.a1 != a1 || MV.a2 != a2 || MV.a3 != a3 || MV.cs != cs)
		MV.bad = 1;
	MV.calls = MV.calls < 1000 ? MV.calls + 1 : 1000;
	if (MV.calls == VI_.fail_at) {
		MV.failed = 1;
		return 1;
	}
	return 0;
}
static int vi_nextcol(struct lbuf *lb, int dir, int *row, int *off) { return scan(F_NEXTCOL, dir, 0, 0, 0); }
static int vi_nextoff(struct lbuf *lb, int dir, int *row, int *off) { return scan(F_NEXTOFF, dir, 0, 0, 0); }
int lbuf_wordbeg(struct lbuf *lb, int big, int dir, int *row, int *off) { return scan(F_WORDBEG, big, dir, 0, 0); }
int lbuf_wordend(struct lbuf *lb, int big, int dir, int *row, int *off) { return scan(F_WORDEND, big, dir, 0, 0); }
int lbuf_paragraphbeg(struct lbuf *lb, int dir, int *row, int *off) { return scan(F_PARA, dir, 0, 0, 0); }
int lbuf_sectionbeg(struct lbuf *lb, int dir, char *sec, int *row, int *off) { return scan(F_SECTION, dir, 0, 0, 0); }
static int vi_findchar(struct lbuf *lb, char *cs, int cmd, int n, int *row, int *off) { return scan(F_FINDCHAR, cmd, n, 0, cs); }
static int vi_search(int cmd, int cnt, int *row, int *off) { return scan(F_SEARCH, cmd, cnt, 0, 0); }
int lbuf_pair(struct lbuf *lb, int *row, int *off) { return scan(F_PAIR, 0, 0, 0, 0); }
char *conf_section(char *ft) { return g_mvline; }
char *ex_filetype(void) { return g_mvline; }
static int vi_col2off(struct lbuf *lb, int row, int col) { MV.col_calls++; MV.col_arg = col; return VI_.col2off; }
int lbuf_indents(struct lbuf *lb, int r) { return VI_.indents; }
int lbuf_eol(struct lbuf *lb, int r) { return VI_.eol; }
int lbuf_jump(struct lbuf *lb, int mark, int *pos, int *off)
{
	if (VI_.jump_fail)
		return 1;
	*pos = VI_.jump_row; *off = VI_.jump_off;
	return 0;
}
static int vi_curword(struct lbuf *lb, char *dst, int len, int row, int off, char *ext) { if (len) dst[0] = 0; return VI_.curword_fail; }
void ex_kwdset(char *kwd, int dir) { MV.kwdset++; }

#ifndef MV_MAXCNT
#define MV_MAXCNT 3
#endif
#define RAN(f, x1, x2, n) (MV.fn == (f) && MV.a1 == (x1) && MV.a2 == (x2) && MV.calls == (VI_.fail_at >= 1 && VI_.fail_at <= (n) ? VI_.fail_at : (n)))
void h_vi_motion(void)
{
	int row = nondet_int(), off = nondet_int();
	GHOST_INIT();
	VI_.key = nondet_int(); VI_.key2 = nondet_int(); VI_.lnmv = nondet_int(); VI_.ctx = nondet_bool() ? 1 : -1; VI_.has_char = nondet_bool();
	VI_.fail_at = nondet_int(); VI_.col2off = nondet_int(); VI_.indents = nondet_int(); VI_.eol = nondet_int();
	VI_.jump_fail = nondet_bool(); VI_.jump_row = nondet_int(); VI_.jump_off = nondet_int(); VI_.curword_fail = nondet_bool();
	vi_arg1 = nondet_int(); vi_arg2 = 0;
	__CPROVER_assume(0 <= vi_arg1 && vi_arg1 <= MV_MAXCNT && 0 <= VI_.key && VI_.key < 256 && 0 <= VI_.fail_at && VI_.fail_at <= MV_MAXCNT + 1);
	vi_charlast[0] = nondet_char(); vi_charlast[1] = 0; vi_charcmd = nondet_int(); vi_pcol = nondet_int();
	MV.reads = MV.backs = MV.calls = MV.failed = MV.bad = MV.col_calls = MV.kwdset = 0; MV.fn = F_NONE;
	int row0 = row, off0 = off, pcol0 = vi_pcol;
	int cnt = vi_arg1 ? vi_arg1 : 1;
	int mv = vi_motion(&row, &off);
	int k = VI_.key;
	H_ASSERT(!MV.bad, "vi_motion: one scanner, the same arguments every round, no round after a failing one");
	if (VI_.lnmv) {
		H_ASSERT(mv == VI_.lnmv && off == -1 && MV.calls == 0, "vi_motion: a line motion is reported with offset -1 (line-wise)");
		return;
	}
	if (k == 'h' || k == 'l')
		H_ASSERT(mv == k && RAN(F_NEXTCOL, (k == 'h' ? -1 : 1) * VI_.ctx, 0, cnt), "vi_motion: h / l step count cells left / right in visual order (reversed in a right-to-left line)");
	else if (k == 'w' || k == 'W')
		H_ASSERT(mv == k && RAN(F_WORDBEG, k == 'W', +1, cnt), "vi_motion: w / W run the word-start scanner forward count times");
	else if (k == 'b' || k == 'B')
		H_ASSERT(mv == k && RAN(F_WORDEND, k == 'B', -1, cnt), "vi_motion: b / B run the word-end scanner backward count times");
	else if (k == 'e' || k == 'E')
		H_ASSERT(mv == k && RAN(F_WORDEND, k == 'E', +1, cnt), "vi_motion: e / E run the word-end scanner forward count times");
	else if (k == '{' || k == '}')
		H_ASSERT(mv == k && RAN(F_PARA, k == '{' ? -1 : +1, 0, cnt), "vi_motion: { / } run the paragraph scanner backward / forward count times");
	else if (k == ' ' || k == 127 || k == TK_CTL('h'))
		H_ASSERT(mv == k && RAN(F_NEXTOFF, k == ' ' ? +1 : -1, 0, cnt), "vi_motion: space / backspace step count characters");
	else if (k == 'f' || k == 'F' || k == 't' || k == 'T') {
		if (!VI_.has_char)
			H_ASSERT(mv == -1 && MV.calls == 0, "vi_motion: f F t T without a target character fail");
		else
			H_ASSERT(MV.fn == F_FINDCHAR && MV.calls == 1 && MV.cs == g_mvchar && MV.a1 == k && MV.a2 == cnt && mv == (MV.failed ? -1 : k), "vi_motion: f F t T look for the count-th occurrence of the typed character in their direction; not found = the motion fails");
	} else if (k == ';' || k == ',') {
		if (!vi_charlast[0])
			H_ASSERT(mv == -1 && MV.calls == 0, "vi_motion: ; and , without an earlier f F t T fail");
		else
			H_ASSERT(MV.fn == F_FINDCHAR && MV.calls == 1 && MV.cs == vi_charlast && MV.a1 == vi_charcmd && MV.a2 == (k == ';' ? cnt : -cnt) && mv == (MV.failed ? -1 : k), "vi_motion: ; repeats the last f F t T, , repeats it in the opposite direction");
	} else if (k == '0')
		H_ASSERT(mv == k && off == 0 && row == row0, "vi_motion: 0 goes to the first character");
	else if (k == '^')
		H_ASSERT(mv == k && off == VI_.indents && row == row0, "vi_motion: ^ goes to the first non-blank character");
	else if (k == '$')
		H_ASSERT(mv == k && off == VI_.eol && row == row0, "vi_motion: $ goes to the end of the line");
	else if (k == '|')
		H_ASSERT(mv == k && MV.col_calls == 1 && MV.col_arg == cnt - 1 && off == VI_.col2off && vi_pcol == cnt - 1 && row == row0, "vi_motion: count| goes to screen column count and makes it the remembered column");
	else if (k == '/' || k == '?' || k == 'n' || k == 'N')
		H_ASSERT(MV.fn == F_SEARCH && MV.calls == 1 && MV.a1 == k && MV.a2 == cnt && mv == (MV.failed ? -1 : k), "vi_motion: / ? n N run the search count times; not found = the motion fails");
	else if (k == '%')
		H_ASSERT(MV.fn == F_PAIR && MV.calls == 1 && mv == (MV.failed ? -1 : k), "vi_motion: % goes to the matching bracket or fails");
	else if (k == '`') {
		if (VI_.key2 <= 0 || VI_.jump_fail)
			H_ASSERT(mv == -1 && row == row0 && off == off0, "vi_motion: no such mark - the motion fails and leaves the cursor in place");
		else
			H_ASSERT(mv == k && row == VI_.jump_row && off == VI_.jump_off, "vi_motion: `x goes to the position of mark x");
	} else if (k == '[' || k == ']') {
		if (VI_.key2 != k)
			H_ASSERT(mv == -1 && MV.calls == 0, "vi_motion: [ and ] must be doubled");
		else
			H_ASSERT(mv == k && RAN(F_SECTION, k == '[' ? -1 : +1, 0, cnt), "vi_motion: [[ / ]] run the section scanner backward / forward count times");
	} else if (k == TK_CTL('a')) {
		if (VI_.curword_fail)
			H_ASSERT(mv == -1 && MV.calls == 0, "vi_motion: ^A without a word under the cursor fails");
		else
			H_ASSERT(MV.fn == F_SEARCH && MV.calls == 1 && MV.a1 == 'n' && MV.a2 == cnt && MV.kwdset == 1, "vi_motion: ^A searches for the word under the cursor");
	} else
		H_ASSERT(mv == 0 && MV.backs == 1 && MV.back_key == k && MV.calls == 0 && row == row0 && off == off0, "vi_motion: any other key is not a motion: it is pushed back and the cursor is left alone");
	if (k != '|')
		H_ASSERT(vi_pcol == pcol0, "vi_motion: only | changes the remembered column");
#ifdef CANARY
	__CPROVER_assert(0, "canary");
#endif
}
