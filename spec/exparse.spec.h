/* contracts for the ex command-line tokenizers (C05: any command stream; C06/C14: the pieces handed to the commands) */

/* the command line: an object whose NUL sits at offset g_sl (libc.spec.h); tokenizers start at offset PX.s0 */
struct ghost_px_in { char *ln; long s0; char *dst; } PX;	/* constants */
static long strlen_hook(const char *s)
{
	return s == PX.ln ? g_sl : -1;
}
#pragma CPROVER check push
#pragma CPROVER check disable "pointer"
#pragma CPROVER check disable "pointer-primitive"
#pragma CPROVER check disable "signed-overflow"
#pragma CPROVER check disable "bounds"
/* the tokenizers' common invariant: the source pointer stays inside the line (at or before its
 * NUL) and never more bytes have been stored than have been consumed */
int inv_tok(const char *src, const char *dst)
{
	long so = __CPROVER_POINTER_OFFSET(src), d = __CPROVER_POINTER_OFFSET(dst);
	return __CPROVER_same_object(src, PX.ln) && PX.s0 <= so && so <= g_sl &&
		__CPROVER_same_object(dst, PX.dst) && 0 <= d && d <= so - PX.s0;
}
#pragma CPROVER check pop
#define TOK_PRE(s_, d_) \
	(s_ == PX.ln + PX.s0 && d_ == PX.dst && 0 <= PX.s0 && PX.s0 <= g_sl && g_sl - PX.s0 < EXLEN && PX.ln[g_sl] == 0)
#define TOK_POST(ret) \
	(__CPROVER_same_object(ret, PX.ln) && PX.s0 <= (long) __CPROVER_POINTER_OFFSET(ret) && (long) __CPROVER_POINTER_OFFSET(ret) <= g_sl)

char *ex_loc_contract(char *src, char *loc)
__CPROVER_requires(TOK_PRE(src, loc))
__CPROVER_assigns(__CPROVER_object_whole(loc))
__CPROVER_ensures(TOK_POST(__CPROVER_return_value))
;
char *ex_cmd_contract(char *src, char *cmd)
__CPROVER_requires(TOK_PRE(src, cmd))
__CPROVER_assigns(__CPROVER_object_whole(cmd))
__CPROVER_ensures(TOK_POST(__CPROVER_return_value))
;
char *ex_arg_contract(char *src, char *dst, char *excmd)
__CPROVER_requires(TOK_PRE(src, dst) && excmd != 0 && __CPROVER_r_ok(excmd, 2))
__CPROVER_assigns(__CPROVER_object_whole(dst))
__CPROVER_ensures(TOK_POST(__CPROVER_return_value))
/* progress: unless the line is exhausted the argument reader consumes at least one byte (ex_exec's loop terminates) */
__CPROVER_ensures(PX.ln[PX.s0] != 0 ==> (long) __CPROVER_POINTER_OFFSET(__CPROVER_return_value) > PX.s0)
;
/* BOUNDED harnesses: every command line of at most TOK_MAXL bytes (all byte values), tokenizer started at
 * every offset; the destination is an object of EXACTLY (bytes to the terminator + 1) bytes - the least
 * the guard of ex_exec promises relative to EXLEN - so "never more bytes stored than consumed, plus
 * the terminator" is checked independently of EXLEN.  (Loop contracts over the two walking pointers
 * ran out of memory: under dfcc every dereference of a loop-havocked pointer is a case split over
 * all objects including the instrumentation's own write sets.) */
#ifndef TOK_MAXL
#define TOK_MAXL 6
#endif
#ifndef TOK_EXTRA
#define TOK_EXTRA 0
#endif
#define TOK_HARNESS(call) \
	char line[TOK_MAXL + 1]; \
	char *dst; \
	int k_; \
	char *ret; \
	GHOST_INIT(); \
	g_sl = nondet_long(); PX.s0 = nondet_long(); \
	__CPROVER_assume(0 <= g_sl && g_sl <= TOK_MAXL && 0 <= PX.s0 && PX.s0 <= g_sl); \
	for (k_ = 0; k_ < TOK_MAXL; k_++) \
		line[k_] = nondet_char(); \
	line[g_sl] = 0; \
	PX.ln = line; \
	dst = malloc(g_sl - PX.s0 + 1 + TOK_EXTRA); \
	PX.dst = dst; \
	ret = call; \
	__CPROVER_assert(__CPROVER_same_object(ret, line) && ret >= line + PX.s0 && ret <= line + g_sl, "tokenizer: the returned position is inside the line, not before the start, not past the terminator");
void h_ex_loc(void)
{
	TOK_HARNESS(ex_loc(line + PX.s0, dst))
#ifdef CANARY
	__CPROVER_assert(0, "canary");
#endif
}
/* ex_cmd compares against cmd0 + 16: the destination has at least 17 bytes (every caller passes EXLEN = 512) */
void h_ex_cmd(void)
{
#undef TOK_EXTRA
#define TOK_EXTRA 17
	TOK_HARNESS(ex_cmd(line + PX.s0, dst))
#ifdef CANARY
	__CPROVER_assert(0, "canary");
#endif
}
void h_ex_arg(void)
{
#undef TOK_EXTRA
#define TOK_EXTRA 0
	char abbr[3];
	abbr[0] = nondet_char(); abbr[1] = nondet_char(); abbr[2] = 0;
	TOK_HARNESS(ex_arg(line + PX.s0, dst, abbr))
	H_ASSERT(line[PX.s0] == 0 || ret > line + PX.s0, "ex_arg: unless the line is exhausted at least one byte is consumed (ex_exec's loop makes progress)");
#ifdef CANARY
	__CPROVER_assert(0, "canary");
#endif
}

/* BOUNDED: where the argument of :s ends (C14).  The argument is <d>pattern<d>replacement<d>flags; a
 * delimiter that is the second byte of a backslash pair belongs to the text and does not count; after
 * the third counting delimiter the argument runs on to the next | newline or " (bytes of backslash
 * pairs excepted).  Spec function: the pairs are formed left to right. */
void h_ex_arg_subst(void)
{
	char line[TOK_MAXL + 1];
	char dst[TOK_MAXL + 2];
	char abbr[2];
	int k, L = nondet_int();
	GHOST_INIT();
	__CPROVER_assume(1 <= L && L <= TOK_MAXL);
	for (k = 0; k < TOK_MAXL; k++) {
		line[k] = nondet_char();
		__CPROVER_assume(line[k] == '/' || line[k] == '\\' || line[k] == '|' || line[k] == 'a' || line[k] == '"');
	}
	line[L] = 0;
	__CPROVER_assume(line[0] == '/');	/* the delimiter */
	abbr[0] = 's'; abbr[1] = 0;
	g_sl = L; PX.s0 = 0; PX.ln = line; PX.dst = dst;
	char *ret = ex_arg(line, dst, abbr);
	/* spec: walk the backslash pairs */
	int i = 1, cnt = 2, in_s = 1, end = -1;
	for (k = 0; k < TOK_MAXL + 1; k++) {
		if (end >= 0)
			break;
		if (!line[i]) {
			end = i;
		} else if (line[i] == '\\' && line[i + 1]) {
			i += 2;		/* a pair: both bytes belong to the text */
		} else if (in_s) {
			if (line[i] == '/' && --cnt == 0)
				in_s = 0;
			i++;
		} else if (line[i] == '|' || line[i] == '"') {
			end = i;
		} else
			i++;
	}
	if (end >= 0) {
		H_ASSERT(dst[end] == 0, "ex_arg (:s): the argument ends at the first | or \" after the third counting delimiter (or at the end of the line)");
		int j = nondet_int();
		__CPROVER_assume(0 <= j && j < TOK_MAXL);
		if (j < end)
			H_ASSERT(dst[j] == line[j], "ex_arg (:s): the argument is copied byte for byte, backslashes included");
	}
#ifdef CANARY
	__CPROVER_assert(0, "canary");
#endif
}
