/* contracts for /repo/sbuf.c (C01: capacity growth keeps one spare byte for the terminator) */

#define SB_MAX	0x3fffff80	/* bound of the claim: capacity below 1 GiB (s_sz is an int and NEXTSZ doubles it) */
#define SB_ALIGN(n)	(((n) + 127) & ~127)
#define SB_NEXT(o, r)	SB_ALIGN((o) * 2 > (o) + (r) ? (o) * 2 : (o) + (r))
/* representation invariant */
#define SB_OK(sb)	((sb)->s_n >= 0 && ((sb)->s == 0 ? ((sb)->s_n == 0 && (sb)->s_sz == 0) : ((sb)->s_n < (sb)->s_sz && (sb)->s_sz <= SB_MAX)))
#define SB_PRE(sb)	(__CPROVER_is_fresh(sb, sizeof(*sb)) && (sb)->s_n >= 0 && (sb)->s_sz >= 0 && (sb)->s_sz <= SB_MAX && \
	((sb)->s_sz == 0 ? ((sb)->s_n == 0 && (sb)->s == 0) : ((sb)->s_n < (sb)->s_sz && __CPROVER_is_fresh((sb)->s, (sb)->s_sz))))

/* witness: absolute byte position g_mw of the buffer (ghost of the bulk-copy stubs, universally quantified);
 * g_oldbyte names the byte stored there on entry (old() cannot guard a conditional read) */
char g_oldbyte;
#define OLDBYTE_PRE(sb) ((0 <= g_mw && g_mw < (sb)->s_n) ==> g_oldbyte == (sb)->s[g_mw])

void sbuf_mem_contract(struct sbuf *sbuf, char *s, int len)
__CPROVER_requires(SB_PRE(sbuf))
__CPROVER_requires(OLDBYTE_PRE(sbuf))
__CPROVER_requires(0 <= len && len <= SB_MAX && sbuf->s_n + len <= SB_MAX - 256 && (len == 0 || __CPROVER_is_fresh(s, len)))
__CPROVER_assigns(sbuf->s, sbuf->s_n, sbuf->s_sz; sbuf->s != 0: __CPROVER_object_whole(sbuf->s))
__CPROVER_frees(sbuf->s)
/* still a well-formed buffer, with room for the terminator */
__CPROVER_ensures(sbuf->s_n == __CPROVER_old(sbuf->s_n) + len)
__CPROVER_ensures(sbuf->s_n == 0 || (sbuf->s != 0 && sbuf->s_n + 1 <= sbuf->s_sz))
/* capacity is kept, or grows to NEXTSZ: at least double, a multiple of 128, never past INT_MAX */
__CPROVER_ensures(sbuf->s_sz == __CPROVER_old(sbuf->s_sz) || sbuf->s_sz == SB_NEXT(__CPROVER_old(sbuf->s_sz), len + 1))
/* the bytes already stored are kept, the new ones are the source bytes, in order (witness byte) */
__CPROVER_ensures((0 <= g_mw && g_mw < __CPROVER_old(sbuf->s_n)) ==> sbuf->s[g_mw] == g_oldbyte)
__CPROVER_ensures((__CPROVER_old(sbuf->s_n) <= g_mw && g_mw < sbuf->s_n) ==> sbuf->s[g_mw] == s[g_mw - __CPROVER_old(sbuf->s_n)])
;

void h_sbuf_mem(void)
{
	struct sbuf *sb;
	char *s;
	int len;
	GHOST_INIT();
	g_oldbyte = nondet_char();
	sbuf_mem(sb, s, len);
#ifdef CANARY
	__CPROVER_assert(0, "canary");
#endif
}

void sbuf_chr_contract(struct sbuf *sbuf, int c)
__CPROVER_requires(SB_PRE(sbuf) && sbuf->s_n <= SB_MAX - 512)
__CPROVER_requires(OLDBYTE_PRE(sbuf))
__CPROVER_assigns(sbuf->s, sbuf->s_n, sbuf->s_sz; sbuf->s != 0: __CPROVER_object_whole(sbuf->s))
__CPROVER_frees(sbuf->s)
__CPROVER_ensures(sbuf->s_n == __CPROVER_old(sbuf->s_n) + 1 && sbuf->s != 0 && sbuf->s_n + 1 <= sbuf->s_sz)
__CPROVER_ensures(sbuf->s[sbuf->s_n - 1] == (char) c)
__CPROVER_ensures((0 <= g_mw && g_mw < __CPROVER_old(sbuf->s_n)) ==> sbuf->s[g_mw] == g_oldbyte)
;

void h_sbuf_chr(void)
{
	struct sbuf *sb;
	int c;
	GHOST_INIT();
	g_oldbyte = nondet_char();
	sbuf_chr(sb, c);
#ifdef CANARY
	__CPROVER_assert(0, "canary");
#endif
}

char *sbuf_buf_contract(struct sbuf *sb)
__CPROVER_requires(SB_PRE(sb))
__CPROVER_requires(OLDBYTE_PRE(sb))
__CPROVER_assigns(sb->s, sb->s_sz; sb->s != 0: __CPROVER_object_whole(sb->s))
/* a C string of exactly s_n bytes, also for an empty buffer */
__CPROVER_ensures(__CPROVER_return_value != 0 && __CPROVER_return_value == sb->s && sb->s[sb->s_n] == 0 && sb->s_n == __CPROVER_old(sb->s_n) && sb->s_n < sb->s_sz)
__CPROVER_ensures((0 <= g_mw && g_mw < sb->s_n) ==> sb->s[g_mw] == g_oldbyte)
;

void h_sbuf_buf(void)
{
	struct sbuf *sb;
	GHOST_INIT();
	g_oldbyte = nondet_char();
	sbuf_buf(sb);
#ifdef CANARY
	__CPROVER_assert(0, "canary");
#endif
}

void sbuf_cut_contract(struct sbuf *sb, int len)
__CPROVER_requires(SB_PRE(sb))
__CPROVER_assigns(sb->s_n)
__CPROVER_ensures(sb->s_n == (__CPROVER_old(sb->s_n) > len ? len : __CPROVER_old(sb->s_n)))
;
void h_sbuf_cut(void)
{
	struct sbuf *sb;
	int len;
	GHOST_INIT();
	g_oldbyte = nondet_char();
	sbuf_cut(sb, len);
#ifdef CANARY
	__CPROVER_assert(0, "canary");
#endif
}
