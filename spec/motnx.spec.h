/* lbuf_next: one character forward or backward across line ends - the step every word motion is built from (C07) */
int xic;
struct rstr;
struct rstr *rstr_make(char *re, int flg) { return 0; }
void rstr_free(struct rstr *rs) { }
int rstr_find(struct rstr *rs, char *s, int n, int *grps, int flg) { return -1; }
int uc_code(char *s) { return nondet_int(); }
int uc_kind(char *s) { return nondet_int(); }
int uc_isspace(char *s) { return nondet_int(); }
char *uc_chr(char *s, int off) { return s; }
int uc_off(char *s, int off) { return nondet_int(); }
char *uc_next(char *s) { return s; }
char *uc_prev(char *beg, char *s) { return s; }

/* the buffer is abstract: NX.n lines; line r is identified by the pointer g_lnbase + r; every line
 * holds at least its newline.  Lengths of the cursor line and of the line stepped onto are arbitrary. */
struct ghost_nx_in { int n, r0, len_cur, len_adj, dir; } NX;	/* constants */
static char g_lnbase[4];
int lbuf_len(struct lbuf *lb) { return NX.n; }
char *lbuf_get(struct lbuf *lb, int pos)
{
	if (pos < 0 || pos >= NX.n)
		return 0;
	return pos == NX.r0 ? g_lnbase + 1 : pos == NX.r0 + NX.dir ? g_lnbase + 2 : g_lnbase + 3;
}
int uc_slen(char *s)
{
	__CPROVER_assert(s == g_lnbase + 1 || s == g_lnbase + 2, "lbuf_next: only the cursor line and the line stepped onto are measured");
	return s == g_lnbase + 1 ? NX.len_cur : NX.len_adj;
}
void h_lbuf_next(void)
{
	int r = nondet_int(), o = nondet_int();
	GHOST_INIT();
	NX.n = nondet_int(); NX.len_cur = nondet_int(); NX.len_adj = nondet_int(); NX.dir = nondet_bool() ? 1 : -1;
	__CPROVER_assume(1 <= NX.n && NX.n <= 0x1000000 && 1 <= NX.len_cur && NX.len_cur <= 0x7ffffff0 && 1 <= NX.len_adj && NX.len_adj <= 0x7ffffff0);
	/* the cursor is on an existing character of an existing line */
	__CPROVER_assume(0 <= r && r < NX.n && 0 <= o && o < NX.len_cur);
	NX.r0 = r;
	int r0 = r, o0 = o;
	int ret = lbuf_next((struct lbuf *) 0, NX.dir, &r, &o);
	int in_line = o0 + NX.dir >= 0 && o0 + NX.dir < NX.len_cur;
	int has_adj = r0 + NX.dir >= 0 && r0 + NX.dir < NX.n;
	if (in_line)
		H_ASSERT(ret == 0 && r == r0 && o == o0 + NX.dir, "lbuf_next: inside a line the step moves one character");
	else if (has_adj)
		H_ASSERT(ret == 0 && r == r0 + NX.dir && o == (NX.dir > 0 ? 0 : NX.len_adj - 1), "lbuf_next: at a line end the step goes to the first character of the next line / the last character of the previous line");
	else
		H_ASSERT(ret != 0 && r == r0 && o == o0, "lbuf_next: at the end of the buffer the step fails and leaves the position alone");
	H_ASSERT(0 <= r && r < NX.n && 0 <= o && o < (r == r0 ? NX.len_cur : NX.len_adj), "lbuf_next: the position is on an existing character of an existing line");
#ifdef CANARY
	__CPROVER_assert(0, "canary");
#endif
}
