/* vc_insert: where typed text goes for i a I A o O (C08) */
int xrow, xoff, xhll;
static struct lbuf { int d; } g_inlb;
struct lbuf *ex_lbuf(void) { return &g_inlb; }
struct ghost_in_in { int nlines, first_nl, indents, eol, has_rep, rows, in_off; } II;	/* constants */
struct ghost_in {
	int sub_calls; int pre_end, post_beg; int indents_calls; int dup_calls; char dup_first;
	int input_calls; char *in_pref, *in_post;
	int edit_calls, edit_beg, edit_end; char *edit_text; int nl_edits;
	int nextline_calls, room_calls, bad;
} IV;
static char g_inline[2], g_inpre[2], g_inpost[2], g_inind[2], g_indup[2], g_inrep[2];
char *lbuf_get(struct lbuf *lb, int pos) { return II.nlines > 0 ? g_inline : (char *) 0; }
int lbuf_len(struct lbuf *lb) { return II.nlines; }
int lbuf_indents(struct lbuf *lb, int r) { return II.indents; }
int lbuf_eol(struct lbuf *lb, int r) { return II.eol; }
/* ren_noeol (unit ren.ren_noeol) */
int ren_noeol(char *s, int o) { return o >= II.eol ? (II.eol > 0 ? II.eol - 1 : 0) : o; }
char *uc_sub(char *s, int beg, int end)
{
	IV.sub_calls++;
	if (s != g_inline)
		IV.bad = 1;
	if (beg == 0 && end >= 0) {
		IV.pre_end = end;
		return g_inpre;
	}
	if (end < 0) {
		IV.post_beg = beg;
		return g_inpost;
	}
	IV.bad = 1;
	return g_inpost;
}
char *uc_dup(char *s) { IV.dup_calls++; IV.dup_first = s[0]; return g_indup; }
static char *vi_indents(char *ln) { IV.indents_calls++; return g_inind; }
static void vi_nextline(void) { IV.nextline_calls++; xrow++; }
void term_room(int n) { IV.room_calls++; }
/* insert mode (led_input through vi_input): the typed text has II.rows lines; for every line break typed the
 * next-line callback has moved the current line down by one; NULL when the insert is aborted */
static char *vi_input(char *pref, char *post, int *row, int *off)
{
	IV.input_calls++; IV.in_pref = pref; IV.in_post = post;
	if (!II.has_rep)
		return 0;
	xrow += II.rows - 1;
	*row = II.rows;
	*off = II.in_off;
	return g_inrep;
}
void lbuf_edit(struct lbuf *lb, char *s, int beg, int end)
{
	if (s != g_inrep) {
		IV.nl_edits++;
		return;
	}
	IV.edit_calls++; IV.edit_text = s; IV.edit_beg = beg; IV.edit_end = end;
}
void free(void *p) { }
static void vi_drawfix(int r1, int r2, int n, int preview) { }
void h_vc_insert(void)
{
	int cmd = nondet_int();
	GHOST_INIT();
	__CPROVER_assume(cmd == 'i' || cmd == 'a' || cmd == 'I' || cmd == 'A' || cmd == 'o' || cmd == 'O');
	II.nlines = nondet_int(); II.first_nl = nondet_bool(); II.indents = nondet_int(); II.eol = nondet_int(); II.has_rep = nondet_bool(); II.rows = nondet_int(); II.in_off = nondet_int();
	xrow = nondet_int(); xoff = nondet_int();
	__CPROVER_assume(0 <= II.nlines && II.nlines <= 0x100000 && 0 <= xrow && (II.nlines == 0 ? xrow == 0 : xrow < II.nlines));
	__CPROVER_assume(0 <= II.eol && II.eol <= 0x100000 && 0 <= II.indents && II.indents <= II.eol && 0 <= xoff && xoff <= 0x100000);
	__CPROVER_assume(1 <= II.rows && II.rows <= 0x10000 && 0 <= II.in_off && II.in_off <= 0x100000);
	/* the line is empty exactly when its end-of-line offset is 0 */
	g_inline[0] = II.eol == 0 ? '\n' : 'x'; g_inline[1] = 0;
	IV.sub_calls = IV.indents_calls = IV.dup_calls = IV.input_calls = IV.edit_calls = IV.nl_edits = IV.nextline_calls = IV.room_calls = IV.bad = 0;
	IV.pre_end = IV.post_beg = -7;
	int row0 = xrow, off0 = xoff;
	int has_line = II.nlines > 0;
	int ret = vc_insert(cmd);
	H_ASSERT(!IV.bad && IV.input_calls == 1, "vc_insert: insert mode is entered once");
	int open_line = cmd == 'o' || cmd == 'O' || !has_line;
	if (!open_line) {
		/* the insertion point, as a character offset in the cursor line */
		int base = cmd == 'I' ? II.indents : cmd == 'A' ? II.eol : off0;
		int cur = base >= II.eol ? (II.eol > 0 ? II.eol - 1 : 0) : base;	/* taken off the terminator */
		int at = II.eol == 0 ? 0 : (cmd == 'i' || cmd == 'I') ? cur : cur + 1;
		H_ASSERT(IV.in_pref == g_inpre && IV.in_post == g_inpost && IV.pre_end == at && IV.post_beg == at,
			"vc_insert: i inserts before the cursor character, a after it, I before the first non-blank, A at the end of the line (an empty line: at its start)");
	} else
		H_ASSERT(IV.in_pref == g_inind && IV.in_post == g_indup && IV.dup_first == '\n', "vc_insert: o / O (and any insert into an empty buffer) open a new line that keeps the indentation");
	if (!II.has_rep) {
		H_ASSERT(ret == 0 && IV.edit_calls == 0, "vc_insert: an aborted insert leaves the text unchanged");
		return;
	}
	int target = row0 + (cmd == 'o');
	int opens = cmd == 'o' || cmd == 'O';
	H_ASSERT(IV.edit_calls == 1 && IV.edit_text == g_inrep && IV.edit_beg == target && IV.edit_end == target + (opens ? 0 : 1),
		"vc_insert: i a I A replace exactly the cursor line by the typed text, o / O insert it below / above the cursor line replacing nothing");
	H_ASSERT(xoff == II.in_off && xrow == target + II.rows - 1, "vc_insert: the cursor ends on the last typed line where insert mode left it");
#ifdef CANARY
	__CPROVER_assert(0, "canary");
#endif
}
