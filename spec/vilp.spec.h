/* one round of vi()'s command loop (C09: the key record is cut at the start of each command and a
 * change command's keys become the repeat buffer; C04 / C02: one undo step and one dirty-test
 * bump per round, after the command ran) */
int xrow, xoff, xtop, xleft, xquit, xru, xhll;
char g_oldbyte_lp;
static struct lbuf { int d; } g_lplb;
struct lbuf *ex_lbuf(void) { return &g_lplb; }
struct ghost_lp_in { int mv, key, n2, col0, col1, c2o; } LPI;	/* constants */
struct ghost_lp {
	int t;			/* event clock */
	int cmd_calls, t_cmd1, t_cmd2;
	int t_firstkey;		/* first time a key of the new command was asked for */
	int mod_calls, t_mod;
	int put_calls, put_reg, put_ln; char *put_text;
	int reads;
	int o2c_calls, c2o_calls, c2o_col, cursor_col, cursor_calls;
} LP;
static char g_icmd[4096];
static void key_event(void)
{
	LP.t++;
	if (!LP.t_firstkey)
		LP.t_firstkey = LP.t;
}
char *term_cmd(int *n)
{
	LP.t++;
	LP.cmd_calls++;
	if (LP.cmd_calls == 1) {
		LP.t_cmd1 = LP.t;
		xquit = 1;	/* this round is the last one: the loop ends at its next test */
		*n = nondet_int();
	} else {
		LP.t_cmd2 = LP.t;
		*n = LPI.n2;
	}
	return g_icmd;
}
int lbuf_modified(struct lbuf *lb)
{
	LP.t++;
	LP.mod_calls++;
	LP.t_mod = LP.t;
	return nondet_int();
}
void reg_put(int c, char *s, int ln)
{
	LP.put_calls++; LP.put_reg = c; LP.put_text = s; LP.put_ln = ln;
}
static int vi_yankbuf(void) { key_event(); return nondet_int(); }
static int vi_prefix(void) { key_event(); return nondet_int(); }
static int vi_motion(int *row, int *off) { key_event(); return LPI.mv; }
static int vi_read(void) { key_event(); LP.reads++; return LP.reads == 1 ? LPI.key : nondet_int(); }
char *lbuf_get(struct lbuf *lb, int pos) { return (char *) 0; }
/* column <-> offset conversions (units ren.posoff_bounded / ren.*): the first call is the one before the loop */
static int vi_off2col(struct lbuf *lb, int row, int off) { LP.o2c_calls++; return LP.o2c_calls == 1 ? LPI.col0 : LPI.col1; }
static int vi_col2off(struct lbuf *lb, int row, int col) { LP.c2o_calls++; LP.c2o_col = col; return LPI.c2o; }
int ren_cursor(char *s, int p) { LP.cursor_calls++; LP.cursor_col = p; return p; }
int lbuf_indents(struct lbuf *lb, int r) { return 0; }
int ren_noeol(char *s, int o) { return o; }

void h_vi_loop(void)
{
	GHOST_INIT();
	LPI.mv = nondet_int(); LPI.key = nondet_int(); LPI.n2 = nondet_int(); LPI.col0 = nondet_int(); LPI.col1 = nondet_int(); LPI.c2o = nondet_int();
	__CPROVER_assume(0 <= LPI.col0 && LPI.col0 <= 0x100000 && 0 <= LPI.col1 && LPI.col1 <= 0x100000 && 0 <= LPI.c2o && LPI.c2o <= 0x100000);
	vi_pcol = nondet_int();
	__CPROVER_assume(0 <= vi_pcol && vi_pcol <= 0x100000);
	__CPROVER_assume(-1 <= LPI.mv && LPI.mv < 256 && -1 <= LPI.key && LPI.key < 256 && 0 <= LPI.n2 && LPI.n2 <= 4096);
	xquit = 0; xrow = nondet_int(); xoff = nondet_int(); xtop = nondet_int(); xleft = nondet_int();
	__CPROVER_assume(0 <= xrow && xrow <= 0x1000000 && 0 <= xoff && xoff <= 0x1000000 && 0 <= xtop && xtop <= 0x1000000 && 0 <= xleft && xleft <= 0x1000000);
	LP.t = LP.cmd_calls = LP.t_cmd1 = LP.t_cmd2 = LP.t_firstkey = LP.mod_calls = LP.t_mod = LP.put_calls = LP.reads = 0; LP.o2c_calls = LP.c2o_calls = LP.cursor_calls = 0; LP.c2o_col = LP.cursor_col = -7;
	g_oldbyte_lp = g_icmd[0];
	rep_len = nondet_int();
	int rep_len0 = rep_len;
	vi();
	int c = LPI.key;
	H_ASSERT(LP.cmd_calls >= 1 && LP.t_cmd1 < LP.t_firstkey, "vi: the key record is cut at the start of the round, before any key of the new command is read");
	H_ASSERT(LP.mod_calls <= 1, "vi: at most one undo-step / dirty-test bump per round");
	if (LPI.mv != 0 || LP.cmd_calls == 2)
		H_ASSERT(LP.mod_calls == 1 && LP.t_mod == LP.t, "vi: a round that ran a motion or a command ends with exactly one bump, after everything else");
	if (LP.cmd_calls == 2) {
		int change = c == '!' || c == '<' || c == '>' || c == 'A' || c == 'C' || c == 'D' || c == 'I' || c == 'J' || c == 'O' || c == 'P' || c == 'R' || c == 'S' ||
			c == 'X' || c == 'Y' || c == 'a' || c == 'c' || c == 'd' || c == 'i' || c == 'o' || c == 'p' || c == 'r' || c == 's' || c == 'x' || c == 'y' || c == '~';
		if (change && LPI.n2 + 1 < 4096) {
			H_ASSERT(rep_len == LPI.n2 && rep_cmd[LPI.n2] == 0, "vi: after a change command the repeat buffer holds the keys of that command (the record since the cut)");
			H_ASSERT(LP.put_calls == 1 && LP.put_reg == '.' && LP.put_text == rep_cmd && LP.put_ln == 0, "vi: and register . receives them");
		} else if (c != 'g')
			H_ASSERT(rep_len == rep_len0 && LP.put_calls == 0, "vi: any other command leaves the repeat buffer alone");
	}
	/* the remembered column (C07: "the sticky column of j/k depends on history") */
	if (LPI.mv == 'j' || LPI.mv == 'k') {
		H_ASSERT(LP.c2o_calls == 1 && LP.c2o_col == LPI.col0 && xoff == LPI.c2o, "vi: j and k go to the remembered column of the new line");
		H_ASSERT(LP.cursor_calls >= 1 && LP.cursor_col == LPI.col0, "vi: j and k leave the remembered column as it was");
	} else if (LPI.mv == '|')
		H_ASSERT(LP.cursor_calls >= 1 && LP.cursor_col == vi_pcol, "vi: | makes its column the remembered column");
	else if (LPI.mv > 0)
		H_ASSERT(LP.cursor_calls >= 1 && LP.cursor_col == LPI.col1 && LP.c2o_calls == 0, "vi: every other motion makes the column it lands on the remembered column");
#ifdef CANARY
	__CPROVER_assert(0, "canary");
#endif
}
