/* one round of vi()'s command loop (C09: the key record is cut at the start of each command and a
 * change command's keys become the repeat buffer; C04 / C02: one undo step and one dirty-test
 * bump per round, after the command ran) */
int xrow, xoff, xtop, xleft, xquit, xru, xhll;
char g_oldbyte_lp;
static struct lbuf { int d; } g_lplb;
struct lbuf *ex_lbuf(void) { return &g_lplb; }
struct ghost_lp_in { int mv, key, n2; } LPI;	/* constants */
struct ghost_lp {
	int t;			/* event clock */
	int cmd_calls, t_cmd1, t_cmd2;
	int t_firstkey;		/* first time a key of the new command was asked for */
	int mod_calls, t_mod;
	int put_calls, put_reg, put_ln; char *put_text;
	int reads;
} LP;
static char g_icmd[4096];
static void key_event(void)
{
	LP.t++;
	if (!LP.t_firstkey)
		LP.t_firstkey = LP.t;
}
char *term_cmd(int *n)
{
	LP.t++;
	LP.cmd_calls++;
	if (LP.cmd_calls == 1) {
		LP.t_cmd1 = LP.t;
		xquit = 1;	/* this round is the last one: the loop ends at its next test */
		*n = nondet_int();
	} else {
		LP.t_cmd2 = LP.t;
		*n = LPI.n2;
	}
	return g_icmd;
}
int lbuf_modified(struct lbuf *lb)
{
	LP.t++;
	LP.mod_calls++;
	LP.t_mod = LP.t;
	return nondet_int();
}
void reg_put(int c, char *s, int ln)
{
	LP.put_calls++; LP.put_reg = c; LP.put_text = s; LP.put_ln = ln;
}
static int vi_yankbuf(void) { key_event(); return nondet_int(); }
static int vi_prefix(void) { key_event(); return nondet_int(); }
static int vi_motion(int *row, int *off) { key_event(); return LPI.mv; }
static int vi_read(void) { key_event(); LP.reads++; return LP.reads == 1 ? LPI.key : nondet_int(); }
char *lbuf_get(struct lbuf *lb, int pos) { return (char *) 0; }
int ren_noeol(char *s, int o) { return o; }

void h_vi_loop(void)
{
	GHOST_INIT();
	LPI.mv = nondet_int(); LPI.key = nondet_int(); LPI.n2 = nondet_int();
	__CPROVER_assume(-1 <= LPI.mv && LPI.mv < 256 && -1 <= LPI.key && LPI.key < 256 && 0 <= LPI.n2 && LPI.n2 <= 4096);
	xquit = 0; xrow = nondet_int(); xoff = nondet_int(); xtop = nondet_int(); xleft = nondet_int();
	__CPROVER_assume(0 <= xrow && xrow <= 0x1000000 && 0 <= xoff && xoff <= 0x1000000 && 0 <= xtop && xtop <= 0x1000000 && 0 <= xleft && xleft <= 0x1000000);
	LP.t = LP.cmd_calls = LP.t_cmd1 = LP.t_cmd2 = LP.t_firstkey = LP.mod_calls = LP.t_mod = LP.put_calls = LP.reads = 0;
	g_oldbyte_lp = g_icmd[0];
	rep_len = nondet_int();
	int rep_len0 = rep_len;
	vi();
	int c = LPI.key;
	H_ASSERT(LP.cmd_calls >= 1 && LP.t_cmd1 < LP.t_firstkey, "vi: the key record is cut at the start of the round, before any key of the new command is read");
	H_ASSERT(LP.mod_calls <= 1, "vi: at most one undo-step / dirty-test bump per round");
	if (LPI.mv != 0 || LP.cmd_calls == 2)
		H_ASSERT(LP.mod_calls == 1 && LP.t_mod == LP.t, "vi: a round that ran a motion or a command ends with exactly one bump, after everything else");
	if (LP.cmd_calls == 2) {
		int change = c == '!' || c == '<' || c == '>' || c == 'A' || c == 'C' || c == 'D' || c == 'I' || c == 'J' || c == 'O' || c == 'P' || c == 'R' || c == 'S' ||
			c == 'X' || c == 'Y' || c == 'a' || c == 'c' || c == 'd' || c == 'i' || c == 'o' || c == 'p' || c == 'r' || c == 's' || c == 'x' || c == 'y' || c == '~';
		if (change && LPI.n2 + 1 < 4096) {
			H_ASSERT(rep_len == LPI.n2 && rep_cmd[LPI.n2] == 0, "vi: after a change command the repeat buffer holds the keys of that command (the record since the cut)");
			H_ASSERT(LP.put_calls == 1 && LP.put_reg == '.' && LP.put_text == rep_cmd && LP.put_ln == 0, "vi: and register . receives them");
		} else if (c != 'g')
			H_ASSERT(rep_len == rep_len0 && LP.put_calls == 0, "vi: any other command leaves the repeat buffer alone");
	}
#ifdef CANARY
	__CPROVER_assert(0, "canary");
#endif
}
