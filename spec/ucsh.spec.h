/* BOUNDED: uc_shape - the letter is shaped by its nearest neighbours that are not combining marks (C18) */
#define US_N 3
/* a window of up to US_N characters before and after the letter; one byte stands for one character, its code point is in g_code[] */
static char g_txt[2 * US_N + 2];
static int g_code[2 * US_N + 2];
struct ghost_us { int calls, cur, prev, next; } USV;
int uc_code(char *s) { return g_code[s - g_txt]; }
char *uc_beg(char *beg, char *s) { return s; }
char *uc_next(char *s) { return s[0] ? s + 1 : s; }
/* Arabic combining marks (uc_acomb's contract: the harakat block) */
static int uc_acomb(int c) { return c >= 0x064b && c <= 0x065f; }
static int uc_cshape(int cur, int prev, int next) { USV.calls++; USV.cur = cur; USV.prev = prev; USV.next = next; return cur; }
void uc_cput(char *s, int c) { s[0] = 'x'; s[1] = 0; }
void h_uc_shape(void)
{
	int i, nb = nondet_int(), na = nondet_int();
	__CPROVER_assume(0 <= nb && nb <= US_N && 0 <= na && na <= US_N);
	/* characters nb before, the letter at index nb, na after, then the terminator */
	for (i = 0; i < 2 * US_N + 2; i++) {
		g_code[i] = nondet_int();
		__CPROVER_assume(g_code[i] == 0x0628 || g_code[i] == 0x0627 || g_code[i] == 0x064e || g_code[i] == 0x0651 || g_code[i] == 'a');
		g_txt[i] = 'c';
	}
	g_txt[nb + 1 + na] = 0;
	g_code[nb + 1 + na] = 0;
	USV.calls = 0;
	char *r = uc_shape(g_txt, g_txt + nb);
	int cur = g_code[nb];
	if (cur == 'a') {
		H_ASSERT(r == 0 && USV.calls == 0, "uc_shape: a character that is not right-to-left is not shaped");
		return;
	}
	int prev = 0, next = 0, found = 0;
	for (i = 0; i < US_N; i++)
		if (!found && nb - 1 - i >= 0 && !(g_code[nb - 1 - i] >= 0x064b && g_code[nb - 1 - i] <= 0x065f)) {
			prev = g_code[nb - 1 - i];
			found = 1;
		}
	found = 0;
	for (i = 0; i < US_N + 1; i++)
		if (!found && i < na && !(g_code[nb + 1 + i] >= 0x064b && g_code[nb + 1 + i] <= 0x065f)) {
			next = g_code[nb + 1 + i];
			found = 1;
		}
	H_ASSERT(r != 0 && USV.calls == 1 && USV.cur == cur, "uc_shape: the letter itself is shaped once");
	H_ASSERT(USV.prev == prev, "uc_shape: the neighbour before is the nearest preceding character that is not a combining mark (none at the start of the text)");
	H_ASSERT(USV.next == next, "uc_shape: the neighbour after is the nearest following character that is not a combining mark (none at the end)");
#ifdef CANARY
	__CPROVER_assert(0, "canary");
#endif
}
