/* proof unit for one round of the command loop vi() of /repo/vi.c.
 * MECHANICAL EXTRACTION (redone on every run by run.py, unit key "extract"): vi.c's preprocessor
 * lines, every file-scope variable declaration line, a prototype for every other static function
 * (bodies dropped) and the verbatim text of vi(); everything else of vi.c is dropped.  The few
 * callees the unit gives a meaning to are defined in vilp.spec.h; all others have no body (CBMC
 * treats their results as arbitrary and their effects as none). */
#include "pre.h"
#include EXTRACT_FILE
#include "libc.spec.h"
#include "vilp.spec.h"
