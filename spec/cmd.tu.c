/* proof unit for cmd_pipe of /repo/cmd.c - the real file, included verbatim.
 * The variadic fcntl is routed to a two-argument stub (dfcc does not follow variadic callees). */
#include "pre.h"
#include <fcntl.h>
static int verif_fcntl(int fd, int cmd);
#define fcntl(fd, cmd, ...) verif_fcntl(fd, cmd)
#include "cmd.c"
#define STRLEN_HOOK
static long strlen_hook(const char *s);
#include "libc.spec.h"
#include "cmd.spec.h"
