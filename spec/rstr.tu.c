/* proof units for /repo/rstr.c - the real file, included verbatim */
#include "pre.h"
#include "rstr.c"
#define STRCHR_EXACT_GLOBAL
#define STRLEN_HOOK
#include "libc.spec.h"
#include "rstr.spec.h"
