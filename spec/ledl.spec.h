/* led_line: what one key does to the line being typed (C08: "insert mode line editor: ^H ^W ^U ^T ^D ^V ^K, autoindent") */
static int verif_snprintf(char *s, unsigned long n) { if (n) s[0] = 0; return 0; }
int xkmap_alt;
struct ghost_ll_in { int k1, k2, len, lastchar, lastword, has_char, ai_len, first_blank, has_reg; } LLI;	/* constants; the round's key k1, then k2 ends the line */
struct ghost_ll {
	int reads;
	int cut_calls, cut_at; int str_calls; char *str_arg;
	int readchar_calls, readchar_key, readchar_kmap;
	int done_calls, bad;
} LL;
static struct sbuf { int d; } g_llsb;
static char g_lltext[2], g_llchar[2], g_lldone[2], g_llreg[2], g_lldup[2];
static char g_llai[130];
static long strlen_hook(const char *s) { return s == g_llai ? LLI.ai_len : -1; }
int term_read(void)
{
	LL.reads++;
	return LL.reads == 1 ? LLI.k1 : LLI.k2;
}
struct sbuf *sbuf_make(void) { return &g_llsb; }
/* the text typed so far: LLI.len bytes before the round's key */
int sbuf_len(struct sbuf *sb) { return LL.cut_calls || LL.str_calls ? nondet_int() : LLI.len; }
char *sbuf_buf(struct sbuf *sb) { g_lltext[0] = LLI.first_blank ? ' ' : 'x'; return g_lltext; }
void sbuf_cut(struct sbuf *sb, int len) { LL.cut_calls++; LL.cut_at = len; }
void sbuf_str(struct sbuf *sb, char *s) { LL.str_calls++; LL.str_arg = s; }
void sbuf_chr(struct sbuf *sb, int c) { LL.bad = 1; }
char *sbuf_done(struct sbuf *sb) { LL.done_calls++; return g_lldone; }
static int led_lastchar(char *s) { return LLI.lastchar; }
static int led_lastword(char *s) { return LLI.lastword; }
static char *led_readchar(int c, int kmap) { LL.readchar_calls++; LL.readchar_key = c; LL.readchar_kmap = kmap; return LLI.has_char ? g_llchar : (char *) 0; }
static void led_printparts(char *ai, char *pref, char *main, char *post, int *left, int kmap, char *syn) { }
static int led_match(char *out, int len, char *kwd, char *opt) { return 1; }
char *reg_get(int c, int *ln) { if (ln) *ln = 0; return LLI.has_reg ? g_llreg : (char *) 0; }
char *uc_dup(char *s) { return g_lldup; }
char *uc_cat(char *s, char *r) { return g_lldup; }
void free(void *p) { }

void h_led_line(void)
{
	char pref[2], post[2];
	int left = 0, key = -7, kmap = nondet_int(), ai_max = nondet_int();
	GHOST_INIT();
	LLI.k1 = nondet_int(); LLI.k2 = nondet_bool() ? '\n' : 27;
	LLI.len = nondet_int(); LLI.lastchar = nondet_int(); LLI.lastword = nondet_int(); LLI.has_char = nondet_bool(); LLI.ai_len = nondet_int(); LLI.first_blank = nondet_bool(); LLI.has_reg = nondet_bool();
	__CPROVER_assume(-1 <= LLI.k1 && LLI.k1 < 256 && 0 <= LLI.len && LLI.len <= 0x100000 && 0 <= LLI.lastchar && LLI.lastchar <= LLI.len && 0 <= LLI.lastword && LLI.lastword <= LLI.len);
	__CPROVER_assume(0 <= ai_max && ai_max <= 128 && 0 <= LLI.ai_len && LLI.ai_len <= ai_max);
	/* the keys whose effect is stated below (the completion / register keys ^A ^P ^R are left out) */
	__CPROVER_assume(LLI.k1 != TK_CTL('a') && LLI.k1 != TK_CTL('p') && LLI.k1 != TK_CTL('r'));
	pref[0] = nondet_char(); pref[1] = 0; post[0] = 0; post[1] = 0;
	g_llai[LLI.ai_len] = 0;
	int kmap0 = kmap;
	xkmap_alt = nondet_int();
	LL.reads = LL.cut_calls = LL.str_calls = LL.readchar_calls = LL.done_calls = LL.bad = 0;
	char *r = led_line(pref, post, g_llai, ai_max, &left, &key, &kmap, (char *) 0, (char *) 0, 0);
	int k = LLI.k1;
	int ends = k == '\n' || TK_INT(k);
	H_ASSERT(!LL.bad && r == g_lldone && LL.done_calls == 1, "led_line: the typed text is returned");
	H_ASSERT(key == (ends ? k : LLI.k2) && LL.reads == (ends ? 1 : 2), "led_line: RETURN or an interrupt ends the line and is reported as the closing key");
	if (k == TK_CTL('h') || k == 127)
		H_ASSERT(LL.str_calls == 0 && (LLI.len ? (LL.cut_calls == 1 && LL.cut_at == LLI.lastchar) : LL.cut_calls == 0), "led_line: backspace removes exactly the last character typed (nothing on an empty text)");
	else if (k == TK_CTL('u'))
		H_ASSERT(LL.str_calls == 0 && LL.cut_calls == 1 && LL.cut_at == 0, "led_line: ^U removes everything typed on this line");
	else if (k == TK_CTL('w'))
		H_ASSERT(LL.str_calls == 0 && (LLI.len ? (LL.cut_calls == 1 && LL.cut_at == LLI.lastword) : LL.cut_calls == 0), "led_line: ^W removes exactly the last word typed");
	else if (k == TK_CTL('t'))
		H_ASSERT(LL.cut_calls == 0 && LL.str_calls == 0 && (LLI.ai_len < ai_max ? (g_llai[LLI.ai_len] == '\t' && g_llai[LLI.ai_len + 1] == 0) : g_llai[LLI.ai_len] == 0), "led_line: ^T adds one tab to the indentation (when there is room)");
	else if (k == TK_CTL('d')) {
		if (LLI.ai_len > 0)
			H_ASSERT(g_llai[LLI.ai_len - 1] == 0 && LL.cut_calls == 0, "led_line: ^D removes one level of indentation");
		else if (!pref[0] && LLI.first_blank)
			H_ASSERT(LL.cut_calls == 1 && LL.cut_at == 0 && LL.str_calls == 1 && LL.str_arg == g_lldup, "led_line: ^D without indentation removes the first blank typed");
		else
			H_ASSERT(LL.cut_calls == 0 && LL.str_calls == 0, "led_line: ^D with nothing to remove changes nothing");
	} else if (k == TK_CTL('f') || k == TK_CTL('e'))
		H_ASSERT(kmap == (k == TK_CTL('f') ? xkmap_alt : 0) && LL.cut_calls == 0 && LL.str_calls == 0, "led_line: ^F / ^E switch the keymap and leave the text alone");
	else if (ends)
		H_ASSERT(LL.cut_calls == 0 && LL.str_calls == 0 && LL.readchar_calls == 0, "led_line: the closing key adds nothing");
	else {
		H_ASSERT(LL.readchar_calls == 1 && LL.readchar_key == k && LL.readchar_kmap == kmap0 && LL.cut_calls == 0, "led_line: any other key is read as a character (continuing a multi-byte sequence, ^V literal, ^K digraph, keymap)");
		H_ASSERT(LLI.has_char ? (LL.str_calls == 1 && LL.str_arg == g_llchar) : LL.str_calls == 0, "led_line: that character is appended to the text once");
	}
	if (k != TK_CTL('f') && k != TK_CTL('e'))
		H_ASSERT(kmap == kmap0, "led_line: no other key changes the keymap");
#ifdef CANARY
	__CPROVER_assert(0, "canary");
#endif
}
