/* lbuf_wordend: e E (forward) and b B (backward): leave the current character, pass the blanks, go to
 * the far end of the word reached; an empty line stops the motion (C07) */
int xic;
struct rstr;
struct rstr *rstr_make(char *re, int flg) { return 0; }
void rstr_free(struct rstr *rs) { }
int rstr_find(struct rstr *rs, char *s, int n, int *grps, int flg) { return -1; }
int uc_off(char *s, int off) { return nondet_int(); }
char *uc_next(char *s) { return s; }
char *uc_prev(char *beg, char *s) { return s; }
int uc_slen(char *s) { return nondet_int(); }
int lbuf_len(struct lbuf *lb) { return nondet_int(); }

/* characters of the buffer numbered 0..EI.N-1 in reading order (see motwl.spec.h); arbitrary text */
struct ghost_we_in { int N, p0, dir; } EI;	/* constants */
struct ghost_we {
	int pos;
	int c_pos, c_space, c_nl, c_kind;	/* the character examined last and the answers given for it */
	int first_space;	/* was the cursor character a blank */
	int stepped;		/* the step off the cursor character was taken */
	int q;			/* where the blank scan starts: p0, or p0 + dir after the step */
	int exam;		/* blanks examined from q on */
	int nl, stop;
	int wl_calls, wl_pos, wl_kind, wl_ret;
	int back;		/* backward motion stopped by an empty line stepped forward again */
	int at_end, bad;
} WE;
static char g_wetext[2];
char *lbuf_get(struct lbuf *lb, int pos) { return g_wetext; }
char *uc_chr(char *s, int off) { return g_wetext; }
static void we_examine(void)
{
	if (WE.c_pos == WE.pos)
		return;
	WE.c_pos = WE.pos;
	WE.c_nl = nondet_bool();
	WE.c_space = WE.c_nl ? 1 : nondet_bool();
	WE.c_kind = nondet_int();
	__CPROVER_assume(WE.c_space ? WE.c_kind == 0 : (WE.c_kind == 1 || WE.c_kind == 2));
}
int uc_isspace(char *s) { we_examine(); return WE.c_space; }
int uc_code(char *s) { we_examine(); return WE.c_nl ? '\n' : WE.c_space ? ' ' : 'x'; }
int uc_kind(char *s) { we_examine(); return WE.c_kind; }
int lbuf_next_we_contract(struct lbuf *lb, int dir, int *r, int *o)
__CPROVER_requires(r != 0 && o != 0 && (dir == 1 || dir == -1) && 0 <= WE.pos && WE.pos < EI.N)
__CPROVER_assigns(*r, *o, WE.pos, WE.at_end)
__CPROVER_ensures((0 <= __CPROVER_old(WE.pos) + dir && __CPROVER_old(WE.pos) + dir < EI.N) ?
	(__CPROVER_return_value == 0 && WE.pos == __CPROVER_old(WE.pos) + dir && WE.at_end == __CPROVER_old(WE.at_end)) :
	(__CPROVER_return_value != 0 && WE.pos == __CPROVER_old(WE.pos) && WE.at_end == 1))
;
/* lbuf_wordlast (unit mot.lbuf_wordlast): runs to the far end of the word of the given class, or fails at the end of the buffer */
int lbuf_wordlast_we_contract(struct lbuf *lb, int kind, int dir, int *row, int *off)
__CPROVER_requires(row != 0 && off != 0 && dir == EI.dir && 0 <= WE.pos && WE.pos < EI.N)
__CPROVER_assigns(*row, *off, WE.pos, WE.wl_calls, WE.wl_pos, WE.wl_kind, WE.wl_ret)
__CPROVER_ensures(WE.wl_calls == __CPROVER_old(WE.wl_calls) + 1 && WE.wl_pos == __CPROVER_old(WE.pos) && WE.wl_kind == kind && __CPROVER_return_value == WE.wl_ret &&
	0 <= WE.pos && WE.pos < EI.N && (dir > 0 ? WE.pos >= __CPROVER_old(WE.pos) : WE.pos <= __CPROVER_old(WE.pos)))
;
int lbuf_wordend_frame_contract(struct lbuf *lb, int big, int dir, int *row, int *off)
__CPROVER_requires(row != 0 && off != 0)
__CPROVER_assigns(*row, *off, WE)
;
#pragma CPROVER check push
#pragma CPROVER check disable "signed-overflow"
/* loop head of the blank scan: the character at pos is the next one to look at (or was just found to be a blank in the guard) */
int inv_wordend(int nl)
{
	return !WE.at_end && 0 <= WE.pos && WE.pos < EI.N && 0 <= nl && nl <= 1 && WE.wl_calls == 0 &&
		0 <= WE.exam && WE.exam <= EI.N && WE.pos == WE.q + EI.dir * WE.exam && (WE.q == EI.p0 || WE.q == EI.p0 + EI.dir);
}
int dec_wordend(void) { return EI.N - WE.exam; }
#pragma CPROVER check pop
/* the recording of the blank scan is done by the harness through g_track: the stubs above answer, the invariant ties pos to the count */
void h_lbuf_wordend(void)
{
	int row = nondet_int(), off = nondet_int(), big = nondet_bool();
	GHOST_INIT();
	EI.N = nondet_int(); EI.p0 = nondet_int(); EI.dir = nondet_bool() ? 1 : -1;
	__CPROVER_assume(1 <= EI.N && EI.N <= 0x1000000 && 0 <= EI.p0 && EI.p0 < EI.N);
	WE.pos = EI.p0; WE.c_pos = -1; WE.exam = 0; WE.wl_calls = 0; WE.at_end = 0; WE.bad = 0; WE.wl_ret = nondet_bool(); WE.q = EI.p0;
	int ret = lbuf_wordend((struct lbuf *) 0, big, EI.dir, &row, &off);
	if (WE.wl_calls == 1) {
		/* the normal case: the far end of the word that was reached */
		H_ASSERT(!WE.c_space && WE.wl_pos == WE.c_pos, "lbuf_wordend: the word scan starts on the first character after the blanks that is not a blank");
		H_ASSERT(WE.wl_kind == (big ? 3 : WE.c_kind), "lbuf_wordend: e b use the class of that character (word / punctuation), E B every non-blank");
		H_ASSERT(ret == (WE.wl_ret ? 1 : 0), "lbuf_wordend: the motion fails exactly when the word scan runs into the end of the buffer");
		H_ASSERT(EI.dir > 0 ? WE.wl_pos >= EI.p0 : WE.wl_pos <= EI.p0, "lbuf_wordend: the scan never turns back");
	} else {
		H_ASSERT(WE.wl_calls == 0, "lbuf_wordend: at most one word scan");
		if (ret)
			H_ASSERT(WE.at_end, "lbuf_wordend: without a word scan the motion fails only at the end of the buffer");
		else
			H_ASSERT(WE.c_nl, "lbuf_wordend: without a word scan the motion succeeds only when an empty line stopped it");
	}
#ifdef CANARY
	__CPROVER_assert(0, "canary");
#endif
}
