/* contracts for /repo/ren.c (C17: screen-column layout) */
int xorder, xlim, xshape, xtd;
int g_n;	/* number of characters */
int g_w;	/* witness character index */

/* ================================================================== pos_next / pos_prev: nearest column searches */
#define POS_PRE	(0 <= n && n <= 0x1000000 && __CPROVER_is_fresh(pos, sizeof(int) * (n + 1)) && -0x10000000 <= p && p <= 0x10000000 && \
	(0 <= g_w && g_w < n ==> (0 <= pos[g_w] && pos[g_w] <= 0x10000000)))
int pos_next_contract(int *pos, int n, int p, int cur)
__CPROVER_requires(POS_PRE)
/* callers pass a column or -1 ("before the first cell") with the start excluded: a qualifying entry is then a real column >= 0, never the -1 that means "none" */
__CPROVER_requires(p >= (cur ? 0 : -1))
__CPROVER_assigns()
/* the result is a column that qualifies (>= p, or > p when the start is excluded) ... */
__CPROVER_ensures(__CPROVER_return_value == -1 || (__CPROVER_return_value - !cur >= p))
/* ... no character qualifies with a smaller column, and -1 only if none qualifies at all */
__CPROVER_ensures((0 <= g_w && g_w < n && pos[g_w] - !cur >= p) ==> (__CPROVER_return_value != -1 && __CPROVER_return_value <= pos[g_w]))
;
int pos_prev_contract(int *pos, int n, int p, int cur)
__CPROVER_requires(POS_PRE)
__CPROVER_assigns()
__CPROVER_ensures(__CPROVER_return_value == -1 || (__CPROVER_return_value + !cur <= p))
__CPROVER_ensures((0 <= g_w && g_w < n && pos[g_w] + !cur <= p) ==> (__CPROVER_return_value != -1 && __CPROVER_return_value >= pos[g_w]))
;
void h_pos_next(void)
{
	int *pos, n, p, cur;
	GHOST_INIT();
	g_w = nondet_int();
	pos_next(pos, n, p, cur);
#ifdef CANARY
	__CPROVER_assert(0, "canary");
#endif
}
void h_pos_prev(void)
{
	int *pos, n, p, cur;
	GHOST_INIT();
	g_w = nondet_int();
	pos_prev(pos, n, p, cur);
#ifdef CANARY
	__CPROVER_assert(0, "canary");
#endif
}

/* ================================================================== ren_cwid: the width of one cell */
int g_ph, g_phwid, g_ucwid;
static char g_phtext[2];
/* ren_placeholder as seen by ren_cwid: NULL (then *wid = 1), or a replacement text with its declared width */
char *ren_placeholder_contract(char *s, int *wid)
__CPROVER_requires(s != 0)
__CPROVER_assigns(*wid)
__CPROVER_ensures(__CPROVER_return_value == (g_ph ? g_phtext : (char *) 0) && (wid == 0 || *wid == (g_ph ? g_phwid : 1)))
;
/* callee contract of uc_wid (unit uc.wid): 0, 1 or 2 */
int uc_wid(char *s)
{
	return g_ucwid;
}
int ren_cwid_frame_contract(char *s, int pos)
__CPROVER_requires(s != 0)
__CPROVER_assigns()
;
void h_ren_cwid(void)
{
	char s[2];
	int pos = nondet_int();
	GHOST_INIT();
	s[0] = nondet_char(); s[1] = 0;
	g_ph = nondet_bool(); g_phwid = nondet_int(); g_ucwid = nondet_int();
	__CPROVER_assume(0 <= g_ucwid && g_ucwid <= 2 && 0 <= pos && pos <= 0x10000000);
	int w = ren_cwid(s, pos);
	if (s[0] == '\t') {
		H_ASSERT(1 <= w && w <= 8 && ((pos + w) & 7) == 0, "ren_cwid: a tab reaches the next multiple of 8 (1..8 cells)");
	} else if (g_ph) {
		H_ASSERT(w == g_phwid, "ren_cwid: a placeholder has its declared width");
	} else {
		H_ASSERT(w == g_ucwid, "ren_cwid: every other character has the width of its class (0, 1 or 2)");
	}
#ifdef CANARY
	__CPROVER_assert(0, "canary");
#endif
}

/* ================================================================== ren_position, fast path: prefix sums of cell widths */
struct ghost_rc { int calls; int wit_w, wit_pos; } RC;
int ren_cwid_contract(char *s, int pos)
__CPROVER_requires(0 <= pos)
__CPROVER_assigns(RC)
__CPROVER_ensures(0 <= __CPROVER_return_value && __CPROVER_return_value <= 8)
__CPROVER_ensures(RC.calls == __CPROVER_old(RC.calls) + 1)
__CPROVER_ensures(__CPROVER_old(RC.calls) == g_w ? (RC.wit_w == __CPROVER_return_value && RC.wit_pos == pos) :
	(RC.wit_w == __CPROVER_old(RC.wit_w) && RC.wit_pos == __CPROVER_old(RC.wit_pos)))
;
int g_slen, g_strlen;
/* callee contracts of uc_slen / uc_len (uc units): number of characters; bytes of one character (1..4, 0 at the NUL) */
int uc_slen(char *s)
{
	return g_slen;
}
int uc_len(char *s)
{
	int l = nondet_int();
	__CPROVER_assume(0 <= l && l <= 4);
	return l;
}
static int g_reorder_obj[2];
int *ren_position_reorder_contract(char *s)
__CPROVER_requires(s != 0)
__CPROVER_assigns()
__CPROVER_ensures(__CPROVER_return_value == g_reorder_obj)
;
size_t strlen(const char *s)
{
	return (size_t) g_strlen;
}

int *ren_position_contract(char *s)
__CPROVER_requires(s != 0 && 0 <= g_slen && g_slen <= 0x800000 && 0 <= g_strlen && g_slen <= g_strlen && RC.calls == 0)
__CPROVER_assigns(RC)
/* long lines and plain left-to-right lines take the fast path; lines that may need reordering go to the reordering version */
__CPROVER_ensures((g_slen <= xlim && (xorder == 2 || (xorder == 1 && g_slen < g_strlen))) == (__CPROVER_return_value == g_reorder_obj))
/* fast path: the first character starts at column 0, each one starts where the previous one ended (its width taken at its own start column), the last entry is the total width */
__CPROVER_ensures(__CPROVER_return_value != g_reorder_obj ==> (__CPROVER_return_value[0] == 0 && RC.calls == g_slen))
__CPROVER_ensures((__CPROVER_return_value != g_reorder_obj && 0 <= g_w && g_w < g_slen) ==>
	(0 <= RC.wit_w && RC.wit_w <= 8 && 0 <= __CPROVER_return_value[g_w] && __CPROVER_return_value[g_w] <= 8 * g_w &&
	 RC.wit_pos == __CPROVER_return_value[g_w] && __CPROVER_return_value[g_w + 1] == __CPROVER_return_value[g_w] + RC.wit_w))
;
void h_ren_position(void)
{
	char s[2];
	GHOST_INIT();
	s[1] = 0;
	g_w = nondet_int(); g_slen = nondet_int(); g_strlen = nondet_int();
	xorder = nondet_int(); xlim = nondet_int();
	RC.calls = 0; RC.wit_w = nondet_int(); RC.wit_pos = nondet_int();
	ren_position(s);
#ifdef CANARY
	__CPROVER_assert(0, "canary");
#endif
}

/* ================================================================== ren_noeol: keep the cursor off the line terminator (C07, C17) */
/* the line is abstract: g_slen characters, the last one is the newline (lines of a buffer end in
 * exactly one newline); uc_chr enters with its contract from the uc units: the position of
 * character `off`.  The bytes of the line are not addressable by character index - a byte-indexed
 * read is outside the object handed in. */
struct ghost_ne { int asked, calls; } NE;
static char g_chr[2];
char *uc_chr(char *s, int off)
{
	__CPROVER_assert(s != 0 && 0 <= off && off < g_slen, "uc_chr: an existing character is asked for");
	NE.asked = off;
	NE.calls++;
	char c = nondet_char();
	__CPROVER_assume(c != '\n' && c != 0);
	g_chr[0] = off == g_slen - 1 ? '\n' : c;
	return g_chr;
}
int ren_noeol_frame_contract(char *s, int o)
__CPROVER_assigns(NE, __CPROVER_object_whole(g_chr))
;
void h_ren_noeol(void)
{
	char line[1];
	int o = nondet_int(), has = nondet_bool();
	GHOST_INIT();
	g_slen = nondet_int();
	__CPROVER_assume(has ? (1 <= g_slen && g_slen <= 0x7ffffff0) : g_slen == 0);
	__CPROVER_assume(o >= 0);
	NE.calls = 0;
	int r = ren_noeol(has ? line : (char *) 0, o);
	int n = g_slen;
	H_ASSERT(0 <= r && r <= o && (n == 0 ? r == 0 : r <= n - 1), "ren_noeol: the offset is clamped into the line, never moved right");
	H_ASSERT(n >= 2 ==> r <= n - 2, "ren_noeol: never on the line terminator of a non-empty line");
	H_ASSERT(r == (o <= n - 2 ? o : n >= 2 ? n - 2 : 0), "ren_noeol: an offset on a character other than the terminator is kept, anything else goes to the last such character");
#ifdef CANARY
	__CPROVER_assert(0, "canary");
#endif
}
