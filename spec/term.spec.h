/* contracts for the input queue and the key record of /repo/term.c (C05, C09) */
int xvis;
int g_poll_calls, g_read_calls, g_tread_ret;
char g_tread_byte;
/* STUB: poll(2)/read(2) on the terminal - any outcome; calls are counted */
int poll(struct pollfd *fds, nfds_t n, int timeout)
{
	g_poll_calls = g_poll_calls < 1000 ? g_poll_calls + 1 : 1000;
	return nondet_int();
}
ssize_t read(int fd, void *buf, size_t n)
{
	__CPROVER_assert(__CPROVER_w_ok(buf, n), "read: buffer writable for n bytes");
	g_read_calls = g_read_calls < 1000 ? g_read_calls + 1 : 1000;
	long r = nondet_long();
	__CPROVER_assume(-1 <= r && r <= (long) n);
	if (r > 0)
		((char *) buf)[0] = g_tread_byte;
	g_tread_ret = (int) r;
	return r;
}

#define Q_OK	(0 <= ibuf_pos && ibuf_pos <= ibuf_cnt && ibuf_cnt <= (int) sizeof(ibuf) && 0 <= icmd_pos && icmd_pos <= (int) sizeof(icmd))
char g_oldbyte;

/* C09: "executing a register / repeating a change is typing its keys": every pushed key is queued.
 * Known finding F9: a push that does not fit into the rest of the 4096-byte queue is cut short
 * (the input class is split off by KF_EXCLUDE_F9 / KF_ONLY_F9, see known_findings.json). */
#if defined(KF_EXCLUDE_F9)
#define PUSH_CASE(n)	((n) <= (int) sizeof(ibuf) - ibuf_cnt)
#elif defined(KF_ONLY_F9)
#define PUSH_CASE(n)	((n) > (int) sizeof(ibuf) - ibuf_cnt)
#else
#define PUSH_CASE(n)	1
#endif
void term_push_contract(char *s, int n)
__CPROVER_requires(Q_OK && 0 <= n && n <= 0x10000 && (n == 0 || __CPROVER_is_fresh(s, n)) && PUSH_CASE(n))
__CPROVER_requires((0 <= g_mw && g_mw < ibuf_cnt) ==> g_oldbyte == ibuf[g_mw])
__CPROVER_assigns(ibuf_cnt, __CPROVER_object_whole(ibuf))
__CPROVER_ensures(Q_OK)
/* every pushed key is queued, in order, after what is already there */
__CPROVER_ensures(ibuf_cnt == __CPROVER_old(ibuf_cnt) + n)
__CPROVER_ensures((__CPROVER_old(ibuf_cnt) <= g_mw && g_mw < ibuf_cnt) ==> ibuf[g_mw] == s[g_mw - __CPROVER_old(ibuf_cnt)])
__CPROVER_ensures((0 <= g_mw && g_mw < __CPROVER_old(ibuf_cnt)) ==> ibuf[g_mw] == g_oldbyte)
;
void h_term_push(void)
{
	char *s;
	int n;
	GHOST_INIT();
	ibuf_pos = nondet_int(); ibuf_cnt = nondet_int(); icmd_pos = nondet_int(); g_oldbyte = nondet_char();
	term_push(s, n);
#ifdef CANARY
	__CPROVER_assert(0, "canary");
#endif
}

void h_term_read_cmd(void)
{
	int k, n;
	GHOST_INIT();
	ibuf_pos = nondet_int(); ibuf_cnt = nondet_int(); icmd_pos = nondet_int();
	__CPROVER_assume(Q_OK);
	for (k = 0; k < 2; k++)
		ibuf[nondet_int() & 4095] = nondet_char();
	g_poll_calls = 0; g_read_calls = 0; g_tread_byte = nondet_char();
	int pos0 = ibuf_pos, cnt0 = ibuf_cnt, cmd0 = icmd_pos;
	unsigned char next = pos0 < 4096 ? (unsigned char) ibuf[pos0] : 0;
	int c = term_read();
	H_ASSERT(Q_OK, "term_read: queue and record indices stay inside their 4096-byte buffers");
	if (pos0 < cnt0) {
		/* pushed-back keys are returned first-in first-out, before the terminal is read */
		H_ASSERT(c == next && ibuf_pos == pos0 + 1 && ibuf_cnt == cnt0, "term_read: the next queued key is returned");
		H_ASSERT(g_poll_calls == 0 && g_read_calls == 0, "term_read: the terminal is not read while queued keys remain");
	} else if (c >= 0) {
		H_ASSERT(g_read_calls == 1 && c == (unsigned char) g_tread_byte, "term_read: an empty queue reads one key from the terminal");
	}
	/* every key read is recorded (until the record is full) */
	if (cmd0 < 4096 && (pos0 < cnt0 || c >= 0))
		H_ASSERT(icmd_pos == cmd0 + 1 && (unsigned char) icmd[cmd0] == (unsigned char) c, "term_read: the key returned is appended to the record");
	if (cmd0 == 4096)
		H_ASSERT(icmd_pos == 4096, "term_read: a full record is not overrun");
	int rec = icmd_pos;
	char *r = term_cmd(&n);
	H_ASSERT(r == icmd && n == rec && icmd_pos == 0, "term_cmd: returns the keys read since the previous call and cuts the record");
#ifdef CANARY
	__CPROVER_assert(0, "canary");
#endif
}
