/* proof units for vc_put and vc_repeat of /repo/vi.c.
 * MECHANICAL EXTRACTION (redone on every run by run.py, unit key "extract"): the generated file
 * holds vi.c's preprocessor lines, the verbatim declaration lines of the file-scope variables
 * these functions use (vi_msg, vi_arg1/vi_arg2, vi_ybuf, rep_cmd, rep_len) and the verbatim text
 * of the named functions; everything else of vi.c is dropped (vi.c reads the terminal and drives
 * the whole editor).  What the functions call is declared here and stubbed in vix.spec.h.
 * The variadic snprintf is routed to a stub (dfcc does not follow variadic callees). */
#include "pre.h"
#include <stdio.h>
static int verif_snprintf(char *s, unsigned long n);
#define snprintf(s, n, ...) verif_snprintf(s, n)
static void vi_drawfix(int r1, int r2, int n, int preview);
static int linecount(char *s);
#include EXTRACT_FILE
#define NO_STUB_MEMCPY
#define NO_STUB_MEMMOVE
#define NO_STUB_STRCHR
#include "libc.spec.h"
#include "vix.spec.h"
