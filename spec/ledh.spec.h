/* BOUNDED: what backspace and ^W cut, how a key becomes a character (C08, C16) */
/* uc.c helpers with their contracts from the uc units, here over ASCII / two-byte characters */
char *uc_beg(char *beg, char *s)
{
	while (s > beg && (((unsigned char) *s) & 0xc0) == 0x80)
		s--;
	return s;
}
int uc_isspace(char *s) { return s[0] == ' ' || s[0] == '\t' || s[0] == '\n'; }
/* character class: 0 blank, 1 word character, 2 punctuation (uc_kind's contract) */
int uc_kind(char *s)
{
	unsigned char c = (unsigned char) s[0];
	if (c == ' ' || c == '\t' || c == '\n')
		return 0;
	return ((c >= 'a' && c <= 'z') || (c >= 'A' && c <= 'Z') || (c >= '0' && c <= '9') || c == '_' || c > 127) ? 1 : 2;
}
int uc_len(char *s)
{
	unsigned char c = (unsigned char) s[0];
	return c < 0x80 ? (c > 0) : (c & 0xe0) == 0xc0 ? 2 : (c & 0xf0) == 0xe0 ? 3 : (c & 0xf8) == 0xf0 ? 4 : 1;
}
#define LH_MAX 5
static int build(unsigned char *s, int *start, int *nchars)
{
	/* a well-formed string of ASCII and two-byte characters, at most LH_MAX bytes */
	int i, L = nondet_int(), n = 0, need = 0;
	__CPROVER_assume(0 <= L && L <= LH_MAX);
	for (i = 0; i < LH_MAX; i++)
		s[i] = nondet_uchar();
	s[L] = 0;
	for (i = 0; i < LH_MAX; i++) {
		if (i >= L)
			break;
		__CPROVER_assume(s[i] != 0);
		if (need) {
			__CPROVER_assume((s[i] & 0xc0) == 0x80);
			need--;
		} else {
			__CPROVER_assume(s[i] < 0x80 || (s[i] & 0xe0) == 0xc0);
			start[n++] = i;
			need = s[i] < 0x80 ? 0 : 1;
		}
	}
	__CPROVER_assume(need == 0);
	start[n] = L;
	*nchars = n;
	return L;
}
void h_led_lastchar_bounded(void)
{
	unsigned char s[LH_MAX + 1];
	int start[LH_MAX + 2], n;
	build(s, start, &n);
	int r = led_lastchar((char *) s);
	H_ASSERT(r == (n ? start[n - 1] : 0), "led_lastchar: the offset where the last character starts (0 for an empty text): backspace cuts exactly one whole character");
#ifdef CANARY
	__CPROVER_assert(0, "canary");
#endif
}
void h_led_lastword_bounded(void)
{
	unsigned char s[LH_MAX + 1];
	int start[LH_MAX + 2], n, i;
	build(s, start, &n);
	int r = led_lastword((char *) s);
	/* spec: drop the trailing blanks, then the run of characters of one class before them; never the first character's class check beyond the start */
	int k = n - 1;
	for (i = 0; i < LH_MAX; i++)
		if (k > 0 && uc_kind((char *) s + start[k]) == 0)
			k--;
	int kind = k > 0 ? uc_kind((char *) s + start[k]) : 0;
	for (i = 0; i < LH_MAX; i++)
		if (k > 0 && uc_kind((char *) s + start[k - 1]) == kind)
			k--;
	H_ASSERT(r == (n ? start[k] : 0), "led_lastword: the offset where the last word starts (after dropping trailing blanks): ^W cuts exactly that word and the blanks after it");
	H_ASSERT(n == 0 || (((unsigned char) s[r]) & 0xc0) != 0x80, "led_lastword: the cut is on a character boundary");
#ifdef CANARY
	__CPROVER_assert(0, "canary");
#endif
}
