/* proof units for /repo/sbuf.c - the real file, included verbatim */
#include "pre.h"
#include "sbuf.c"
#include "libc.spec.h"
#include "sbuf.spec.h"
