/* proof unit for ex_search of /repo/ex.c (the /re/ and ?re? addresses).
 * MECHANICAL EXTRACTION (redone on every run by run.py, unit key "extract"): ex.c's preprocessor
 * lines, the declaration lines of xkwd and xkwddir, the verbatim text of ex_kwd, ex_kwdset and
 * ex_search and a prototype for every other static function; everything else of ex.c is dropped.
 * The variadic snprintf is routed to a stub that records that the keyword was stored. */
#include "pre.h"
#include <stdio.h>
static int verif_snprintf4(char *s, unsigned long n, const char *fmt, const char *arg);
#define snprintf(s, n, f, a) verif_snprintf4(s, n, f, a)
extern int xic;
#include EXTRACT_FILE
#include "libc.spec.h"
#include "exsr.spec.h"
