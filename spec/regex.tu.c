/* proof units for /repo/regex.c - the real file, included verbatim */
#include "pre.h"
#include "regex.c"
#include "libc.spec.h"
#include "regex.spec.h"
