/* libc / syscall environment for the proof units (trusted base, DESIGN.md section 3.3, 3.4, 4).
 *
 * Bulk-memory and string functions are replaced by stubs that
 *   (a) ASSERT the C-standard preconditions on their arguments, so every call site in the
 *       repository code is checked against them, and
 *   (b) are exact on ghost witness positions and arbitrary (havoc) elsewhere - a sound
 *       over-approximation that keeps the formulas free of symbolic-length array copies.
 * The witness indices are never assigned, hence universally quantified.
 */
#ifndef LIBC_SPEC_H
#define LIBC_SPEC_H
#include <stddef.h>

int nondet_int(void);
long nondet_long(void);
unsigned long nondet_ulong(void);
char nondet_char(void);
unsigned char nondet_uchar(void);
short nondet_short(void);
_Bool nondet_bool(void);
void *nondet_ptr(void);

/* ghost witnesses (never assigned) */
unsigned long g_mk;	/* witness byte index inside a string */
long g_mw;		/* witness absolute byte offset inside the destination object of a bulk copy */
#define GHOST_INIT() do { g_mk = nondet_ulong(); g_mw = nondet_long(); g_opaque_on = 0; g_wit_obj = g_real1 = g_real2 = 0; } while (0)

/* Line-table units: the table of line pointers is a fresh array whose cells are unconstrained
 * except for the witness line.  When g_opaque_on is set by such a harness, a *source* pointer
 * that is neither the witness line nor a registered real object is treated as an opaque line (no dereference, arbitrary content);
 * the witness line and registered objects get the full checks.  Destination checks are never relaxed. */
int g_opaque_on;
const void *g_wit_obj;	/* the witness line (real heap string) of a line-table harness, or NULL */
const void *g_real1, *g_real2;	/* other real objects a line-table harness passes as sources */
#define SAMEOBJ(p, q)	((q) != 0 && __CPROVER_same_object((p), (q)))
#define OPAQUE(p)	(g_opaque_on && !SAMEOBJ(p, g_wit_obj) && !SAMEOBJ(p, g_real1) && !SAMEOBJ(p, g_real2))
#ifdef MEMCPY_HOOK
void memcpy_hook(void *dst, const void *src, size_t n);	/* ghost bookkeeping of a TU */
#endif
#ifdef STRLEN_HOOK
long strlen_hook(const char *s);	/* ghost-known length of s, or -1 */
#endif

#define MAXOBJ	0x7fffffffUL	/* no object is larger than 2^31-1 bytes (int-typed sizes) */

/* Bulk copies.  Two stub flavours (a TU picks one before including this file):
 *   default              : exact at ONE absolute byte position g_mw of the destination object
 *                          (ghost, never assigned => universally quantified), arbitrary elsewhere;
 *   MEMCPY_HAVOC_ALL     : checks only; the whole destination object becomes arbitrary.
 * Both are sound over-approximations of memcpy/memmove (they promise less than libc about the
 * bytes they leave alone) and avoid symbolic-length array copies, which CBMC's back ends cannot
 * digest (DESIGN section 2). */
static void bulk_copy_model(void *dst, const void *src, size_t n, _Bool src_opaque)
{
	long off = __CPROVER_POINTER_OFFSET(dst);
	char *base = (char *) dst - off;
#ifdef MEMCPY_HAVOC_ALL
	__CPROVER_havoc_object(base);
#else
	_Bool inobj = g_mw >= 0 && (unsigned long) g_mw < __CPROVER_OBJECT_SIZE(dst);
	_Bool inwin = inobj && g_mw >= off && (unsigned long) (g_mw - off) < n;
	char keep = 0;
	if (inobj && !(inwin && src_opaque))
		keep = inwin ? ((const char *) src)[g_mw - off] : base[g_mw];
	__CPROVER_havoc_object(base);
	if (inobj && !(inwin && src_opaque))
		base[g_mw] = keep;
#endif
}

#ifndef NO_STUB_MEMCPY
/* STUB: memcpy - asserts dst writable / src readable for n bytes and no overlap; destination per bulk_copy_model; n==0 is a no-op (memcpy(_, NULL, 0) tolerated) */
void *memcpy(void *dst, const void *src, size_t n)
{
	if (n == 0)
		return dst;
	__CPROVER_assert(__CPROVER_w_ok(dst, n), "memcpy: destination writable for n bytes");
#ifdef MEMCPY_HOOK
	memcpy_hook(dst, src, n);
#endif
	if (OPAQUE(src)) {
		bulk_copy_model(dst, src, n, 1);
		return dst;
	}
	__CPROVER_assert(__CPROVER_r_ok(src, n), "memcpy: source readable for n bytes");
	__CPROVER_assert(!__CPROVER_same_object(dst, src) ||
		(const char *) dst + n <= (const char *) src ||
		(const char *) src + n <= (const char *) dst, "memcpy: regions do not overlap");
	bulk_copy_model(dst, src, n, 0);
	return dst;
}
#endif

#ifndef NO_STUB_MEMMOVE
/* STUB: memmove - asserts dst writable / src readable for n bytes; destination per bulk_copy_model */
void *memmove(void *dst, const void *src, size_t n)
{
	if (n == 0)
		return dst;
	__CPROVER_assert(__CPROVER_r_ok(src, n), "memmove: source readable for n bytes");
	__CPROVER_assert(__CPROVER_w_ok(dst, n), "memmove: destination writable for n bytes");
	bulk_copy_model(dst, src, n, 0);
	return dst;
}
#endif

#ifndef NO_STUB_STRLEN
/* STUB: strlen - assumes the argument is NUL-terminated inside its object (producers prove termination); result n has s[n]==0 and s[g_mk]!=0 for the witness g_mk<n */
size_t strlen(const char *s)
{
	size_t n = nondet_ulong();
#ifdef STRLEN_HOOK
	if (strlen_hook(s) >= 0)
		return strlen_hook(s);
#endif
	if (OPAQUE(s)) {
		__CPROVER_assume(n <= MAXOBJ - 16);
		return n;
	}
	__CPROVER_assert(__CPROVER_r_ok(s, 1), "strlen: argument is a readable pointer");
	__CPROVER_assume(n < __CPROVER_OBJECT_SIZE(s) - __CPROVER_POINTER_OFFSET(s));
	__CPROVER_assume(n <= MAXOBJ);
	__CPROVER_assume(s[n] == 0);
	__CPROVER_assume(g_mk >= n || s[g_mk] != 0);
	return n;
}
#endif

#ifdef STRCHR_EXACT_GLOBAL
/* exact strchr as the real symbol (TUs whose only strchr calls scan short constant strings) */
#define STRCHR_EXACT
#define verif_strchr strchr
#define VSC_STATIC
#else
#define VSC_STATIC static
#endif
#ifdef STRCHR_EXACT
/* exact strchr for short, harness-bounded strings (command names): plain loop, unwound completely by the unit */
VSC_STATIC char *verif_strchr(const char *s, int c)
{
	/* loop-free, exact for strings of at most 23 bytes + NUL (asserted) */
#define SC_(i, rest) (s[i] == (char) c ? (char *) s + (i) : s[i] == 0 ? (char *) 0 : (rest))
	return SC_(0, SC_(1, SC_(2, SC_(3, SC_(4, SC_(5, SC_(6, SC_(7, SC_(8, SC_(9, SC_(10, SC_(11,
		SC_(12, SC_(13, SC_(14, SC_(15, SC_(16, SC_(17, SC_(18, SC_(19, SC_(20, SC_(21, SC_(22, SC_(23,
		(__CPROVER_assert(0, "strchr (exact stub): string longer than 23 bytes"), (char *) 0)))))))))))))))))))))))));
#undef SC_
}
#define NO_STUB_STRCHR
#endif

#ifndef NO_STUB_STRCHR
/* STUB: strchr - assumes NUL-termination inside the object; returns first c (witness: byte g_mk before the result is neither c nor NUL) or NULL (witness: s[g_mk]!=c before the NUL) */
char *strchr(const char *s, int c)
{
	__CPROVER_assert(__CPROVER_r_ok(s, 1), "strchr: argument is a readable pointer");
	size_t n = nondet_ulong();
	__CPROVER_assume(n < __CPROVER_OBJECT_SIZE(s) - __CPROVER_POINTER_OFFSET(s));
	__CPROVER_assume(n <= MAXOBJ);
	__CPROVER_assume(g_mk >= n || (s[g_mk] != 0 && s[g_mk] != (char) c));
	if (s[n] == (char) c)
		return (char *) s + n;
	__CPROVER_assume(s[n] == 0);
	return (char *) 0;
}
#endif

/* STUB: ctype classification (isalpha, isdigit, islower, tolower, ...) - the "C" locale tables of the installed glibc, as data; arguments outside -128..255 are undefined behaviour in C and are asserted */
#include "ctype_table.h"
int verif_ctype(int c, int mask)
{
	__CPROVER_assert(c >= -128 && c < 256, "ctype: argument is EOF or representable as unsigned char");
	return (c >= -128 && c < 256) ? (verif_ctype_b[c + 128] & (unsigned short) mask) : 0;
}
int verif_tolower(int c)
{
	return c >= -128 && c < 256 ? verif_ctype_lo[c + 128] : c;
}
int verif_toupper(int c)
{
	return c >= -128 && c < 256 ? verif_ctype_up[c + 128] : c;
}

/* loop variant for pointer-walking loops: bytes left in the object (history variables are not
 * available in decreases clauses) */
#pragma CPROVER check push
#pragma CPROVER check disable "pointer"
#pragma CPROVER check disable "pointer-primitive"
#pragma CPROVER check disable "pointer-overflow"
#pragma CPROVER check disable "signed-overflow"
/* a pointer walking a string object whose NUL sits at offset g_sl: stays inside [0, g_sl] */
long g_sl;
_Bool inv_walk(const void *p, const void *base)
{
	return __CPROVER_same_object(p, base) && (long) __CPROVER_POINTER_OFFSET(p) >= (long) __CPROVER_POINTER_OFFSET(base) &&
		(long) __CPROVER_POINTER_OFFSET(p) <= g_sl;
}
long dec_ptr(const void *p)
{
	return (long) __CPROVER_OBJECT_SIZE(p) - (long) __CPROVER_POINTER_OFFSET(p);
}
long inc_ptr(const void *p)
{
	return (long) __CPROVER_POINTER_OFFSET(p);
}
#pragma CPROVER check pop

#endif
