/* contracts and harnesses for /repo/regex.c (C10, C11; private UTF-8 decoders for C16) */

#define RX_MAXL	0x7ffffff0L
int g_j;	/* witness mark index */
int g_k2;	/* witness group index */

/* ================================================================== brk_len: the bracket scanner stops at the terminator (C11) */
int brk_len_contract(char *s)
__CPROVER_requires(1 <= g_sl && g_sl <= RX_MAXL && __CPROVER_is_fresh(s, g_sl + 1) && s[g_sl] == 0 && s[0] != 0)
__CPROVER_assigns()
/* the returned length never reaches past the NUL of the pattern */
__CPROVER_ensures(1 <= __CPROVER_return_value && __CPROVER_return_value <= g_sl)
;

void h_brk_len(void)
{
	char *s;
	GHOST_INIT();
	g_sl = nondet_long();
	brk_len(s);
#ifdef CANARY
	__CPROVER_assert(0, "canary");
#endif
}

/* ================================================================== re_recmatch: marks -> reported spans (C11, C10) */
long g_subj_len;	/* length of the subject line */
int g_rec_ret;
int g_nsub;
/* re_rec as seen by its caller: called at depth 0 from program counter 0; on success every mark
 * is -1 or an offset inside the subject (unit rx.re_rec proves it for the interpreter) */
int re_rec_top_contract(struct regex *re, struct rstate *rs)
__CPROVER_requires(re != 0 && rs != 0)
/* the documented backtracking depth (NDEPT nested forks) is available to every start position */
__CPROVER_requires(rs->dep == 0 && rs->pc == 0)
/* groups that do not take part must read as unset: all reported marks start at -1 */
__CPROVER_requires(g_j < 0 || g_j >= 2 * g_nsub || g_j >= NGRPS * 2 || rs->mark[g_j] == -1)
__CPROVER_assigns(rs->s, rs->pc, rs->dep, __CPROVER_object_upto(rs->mark, sizeof(rs->mark)))
__CPROVER_ensures(__CPROVER_return_value == g_rec_ret)
__CPROVER_ensures((__CPROVER_return_value == 0 && 0 <= g_j && g_j < NGRPS * 2) ==> (-1 <= rs->mark[g_j] && rs->mark[g_j] <= g_subj_len))
__CPROVER_ensures((__CPROVER_return_value == 0 && 0 <= g_k2 && g_k2 < NGRPS) ==> (-1 <= rs->mark[2 * g_k2] && rs->mark[2 * g_k2] <= g_subj_len &&
	-1 <= rs->mark[2 * g_k2 + 1] && rs->mark[2 * g_k2 + 1] <= g_subj_len))
;

int re_recmatch_contract(struct regex *re, struct rstate *rs, int nsub, regmatch_t *psub)
__CPROVER_requires(__CPROVER_is_fresh(re, sizeof(*re)) && __CPROVER_is_fresh(rs, sizeof(*rs)))
#ifdef RM_BOUND	/* bounded variant: the two loops are unwound instead of closed by loop contracts (robust against a loop being moved away) */
__CPROVER_requires(nsub <= RM_BOUND)
#endif
__CPROVER_requires(0 <= nsub && nsub <= 0x100000 && nsub == g_nsub && __CPROVER_is_fresh(psub, sizeof(regmatch_t) * (nsub + 1)))
__CPROVER_requires(0 <= g_subj_len && g_subj_len <= RX_MAXL)
__CPROVER_assigns(rs->s, rs->pc, rs->dep, __CPROVER_object_upto(rs->mark, sizeof(rs->mark)), __CPROVER_object_whole(psub))
__CPROVER_ensures(__CPROVER_return_value == (g_rec_ret != 0))
/* every reported span is unset or lies inside the line; groups beyond the supported number read as unset */
__CPROVER_ensures((__CPROVER_return_value == 0 && 0 <= g_k2 && g_k2 < nsub) ==> (
	-1 <= psub[g_k2].rm_so && psub[g_k2].rm_so <= g_subj_len && -1 <= psub[g_k2].rm_eo && psub[g_k2].rm_eo <= g_subj_len))
__CPROVER_ensures((__CPROVER_return_value == 0 && NGRPS <= g_k2 && g_k2 < nsub) ==> (psub[g_k2].rm_so == -1 && psub[g_k2].rm_eo == -1))
__CPROVER_ensures((__CPROVER_return_value == 0 && 0 <= g_k2 && g_k2 < nsub && g_k2 < NGRPS) ==> (
	psub[g_k2].rm_so == rs->mark[2 * g_k2] && psub[g_k2].rm_eo == rs->mark[2 * g_k2 + 1]))
;

void h_re_recmatch(void)
{
	struct regex *re;
	struct rstate *rs;
	int nsub;
	regmatch_t *psub;
	GHOST_INIT();
	g_j = nondet_int(); g_k2 = nondet_int(); g_subj_len = nondet_long(); g_rec_ret = nondet_bool(); g_nsub = nondet_int();
	re_recmatch(re, rs, nsub, psub);
#ifdef CANARY
	__CPROVER_assert(0, "canary");
#endif
}

/* ================================================================== regexec: start positions, leftmost (C10, C11) */
struct ghost_rx_in { long L; char *line; int want_flg; int want_nsub; regmatch_t *want_psub; struct regex *want_re; } RXC;	/* inputs: never assigned */
struct ghost_rx { long last_start; long next_start; int calls; int succeeded; int last_nul; } RXG;
/* re_recmatch as seen by the start loop of regexec: the requires clauses are what unit
 * rx.regexec checks at the call (where the matcher is started, in which order); the ensures
 * clauses name the outcome in ghost state and instantiate VALID(line) at this start position */
#define RX_OFF(p)	((long) __CPROVER_POINTER_OFFSET(p))
int re_recmatch_start_contract(struct regex *re, struct rstate *rs, int nsub, regmatch_t *psub)
__CPROVER_requires(rs != 0 && __CPROVER_same_object(rs->s, RXC.line) && rs->o == RXC.line)
__CPROVER_requires(0 <= RX_OFF(rs->s) && RX_OFF(rs->s) <= RXC.L)
/* the first successful start position is final (leftmost) */
__CPROVER_requires(!RXG.succeeded)
/* start positions begin at the line start and advance one character at a time, none skipped */
__CPROVER_requires(RX_OFF(rs->s) == (RXG.calls == 0 ? 0 : RXG.next_start))
/* pattern, flags, group count and result array are handed on unchanged */
__CPROVER_requires(re == RXC.want_re && rs->flg == RXC.want_flg && nsub == RXC.want_nsub && psub == RXC.want_psub)
__CPROVER_assigns(RXG, rs->pc, rs->dep, __CPROVER_object_upto(rs->mark, sizeof(rs->mark)))
__CPROVER_ensures(RXG.last_start == RX_OFF(rs->s) && RXG.calls == (__CPROVER_old(RXG.calls) < 1000 ? __CPROVER_old(RXG.calls) + 1 : 1000))
__CPROVER_ensures(RXG.succeeded == (__CPROVER_return_value == 0) && (__CPROVER_return_value == 0 || __CPROVER_return_value == 1))
/* the next start position: exactly one character further (VALID(line): the character is complete) */
__CPROVER_ensures(RXG.next_start == RX_OFF(rs->s) + uc_len(rs->s) && RXG.next_start <= RXC.L)
__CPROVER_ensures(RXG.last_nul == (rs->s[0] == 0))
;

int regexec_contract(regex_t *preg, char *s, int nsub, regmatch_t psub[], int flg)
__CPROVER_requires(__CPROVER_is_fresh(preg, sizeof(*preg)) && __CPROVER_is_fresh(*preg, sizeof(struct regex)))
__CPROVER_requires(0 <= RXC.L && RXC.L <= RX_MAXL && __CPROVER_is_fresh(s, RXC.L + 1) && s[RXC.L] == 0 && RXC.line == s)
__CPROVER_requires(g_mk >= (unsigned long) RXC.L || s[g_mk] != 0)
__CPROVER_requires(RXG.calls == 0 && !RXG.succeeded && RXC.want_re == *preg && RXC.want_flg == ((*preg)->flg | flg) &&
	RXC.want_nsub == ((flg & REG_NOSUB) ? 0 : nsub) && RXC.want_psub == psub)
__CPROVER_assigns(RXG)
__CPROVER_ensures(__CPROVER_return_value == 0 || __CPROVER_return_value == 1)
__CPROVER_ensures((__CPROVER_return_value == 0) == (RXG.succeeded != 0))
/* no match is reported only after every start position up to the end of the line failed */
__CPROVER_ensures((__CPROVER_return_value == 1 && s[0] != 0) ==> (RXG.calls >= 1 && 0 <= RXG.last_start && RXG.last_start <= RXC.L && s[RXG.last_start] == 0))
;

#pragma CPROVER check push
#pragma CPROVER check disable "pointer"
#pragma CPROVER check disable "pointer-primitive"
#pragma CPROVER check disable "signed-overflow"
_Bool inv_regexec(char *o, char *s)
{
	if (!__CPROVER_same_object(o, RXC.line) || !__CPROVER_same_object(s, RXC.line) || RXG.succeeded)
		return 0;
	long oo = __CPROVER_POINTER_OFFSET(o), so = __CPROVER_POINTER_OFFSET(s);
	if (oo < 0 || oo > RXC.L || so < 0 || so > RXC.L || RXG.calls < 0 || RXG.calls > 1000)
		return 0;
	if (RXG.calls == 0)
		return oo == 0 && so == 0;
	/* o is the start just tried, s the next one: exactly one character further */
	return oo == RXG.last_start && so == RXG.next_start && so >= oo && (so > oo || RXG.last_nul) && (RXG.last_nul == (o[0] == 0));
}
#pragma CPROVER check pop

void h_regexec(void)
{
	regex_t *preg;
	char *s;
	int nsub, flg;
	regmatch_t *psub;
	GHOST_INIT();
	RXC.L = nondet_long(); RXC.line = nondet_ptr(); RXG.calls = 0; RXG.succeeded = 0; RXG.last_start = 0; RXG.next_start = 0;
	RXC.want_re = nondet_ptr(); RXC.want_flg = nondet_int(); RXC.want_nsub = nondet_int(); RXC.want_psub = nondet_ptr();
	psub = RXC.want_psub;
	regexec(preg, s, nsub, psub, flg);
#ifdef CANARY
	__CPROVER_assert(0, "canary");
#endif
}

/* ================================================================== parser: rnode_atom (C11) */
/* PAT_OK: regcomp is only reached through rset_make(), which wraps every pattern as "(" ... ")":
 * the string is NUL-terminated at g_sl, non-empty, and its last byte is ')' (unit rset.rset_make).
 * A pointer into it is "inside" when its offset is in [0, g_sl]. */
#define PAT_IN(p)	(__CPROVER_same_object((p), g_pat) && (long) __CPROVER_POINTER_OFFSET(p) >= 0 && (long) __CPROVER_POINTER_OFFSET(p) <= g_sl)
char *g_pat;
struct rnode g_node_obj;

/* ratom_read as seen by rnode_atom: consumes at least one byte, stays inside the pattern (unit rx.ratom_read) */
void ratom_read_contract(struct ratom *ra, char **pat)
__CPROVER_requires(ra != 0 && pat != 0 && PAT_IN(*pat) && (*pat)[0] != 0)
__CPROVER_assigns(*ra, *pat)
__CPROVER_ensures(PAT_IN(*pat) && (long) __CPROVER_POINTER_OFFSET(*pat) > (long) __CPROVER_POINTER_OFFSET(__CPROVER_old(*pat)))
;
/* rnode_grp as seen by rnode_atom: NULL, or a node (mincnt = maxcnt = 1); stays inside the pattern */
struct rnode *rnode_grp_contract(char **pat)
__CPROVER_requires(pat != 0 && PAT_IN(*pat) && (*pat)[0] == '(')
__CPROVER_assigns(*pat, g_node_obj)
__CPROVER_ensures(PAT_IN(*pat) && (long) __CPROVER_POINTER_OFFSET(*pat) > (long) __CPROVER_POINTER_OFFSET(__CPROVER_old(*pat)))
__CPROVER_ensures(__CPROVER_return_value == 0 || (__CPROVER_return_value == &g_node_obj && g_node_obj.mincnt == 1 && g_node_obj.maxcnt == 1))
;
/* rnode_make as seen by the parser: a zeroed node with the given type and children, repeated exactly once */
struct rnode g_node_obj2;
struct rnode *rnode_make_contract(int rn, struct rnode *c1, struct rnode *c2)
__CPROVER_assigns(g_node_obj2)
__CPROVER_ensures(__CPROVER_return_value == &g_node_obj2 && g_node_obj2.rn == rn && g_node_obj2.c1 == c1 && g_node_obj2.c2 == c2 &&
	g_node_obj2.mincnt == 1 && g_node_obj2.maxcnt == 1 && g_node_obj2.ra.s == 0 && g_node_obj2.grp == 0)
;
void rnode_free_contract(struct rnode *rnode)
__CPROVER_requires(rnode != 0)
__CPROVER_assigns()
;

char *g_patp;	/* the parser's position variable in the harness */
struct rnode *rnode_atom_contract(char **pat)
__CPROVER_requires(pat == &g_patp && g_pat != 0 && PAT_IN(g_patp) && 1 <= g_sl && g_sl <= RX_MAXL)
__CPROVER_assigns(g_patp, g_node_obj, g_node_obj2)
/* the parser never leaves the pattern string, whatever bytes it holds */
__CPROVER_ensures(PAT_IN(*pat))
/* repetition bounds: a node that is returned has sane bounds within the supported number of repetitions
 * (bad, inverted or oversized bounds reject the pattern) */
__CPROVER_ensures(__CPROVER_return_value != 0 ==> (0 <= __CPROVER_return_value->mincnt && __CPROVER_return_value->mincnt <= NREPS &&
	(__CPROVER_return_value->maxcnt == -1 || (__CPROVER_return_value->mincnt <= __CPROVER_return_value->maxcnt && __CPROVER_return_value->maxcnt <= NREPS))))
;

void h_rnode_atom(void)
{
	char **pat;
	GHOST_INIT();
	g_sl = nondet_long();
	__CPROVER_assume(1 <= g_sl && g_sl <= RX_MAXL);
	g_pat = malloc(g_sl + 1);
	__CPROVER_assume(g_pat[g_sl] == 0 && g_pat[g_sl - 1] == ')');
	long off0 = nondet_long();
	__CPROVER_assume(0 <= off0 && off0 <= g_sl);
	g_patp = g_pat + off0;
	pat = &g_patp;
	rnode_atom(pat);
#ifdef CANARY
	__CPROVER_assert(0, "canary");
#endif
}

/* ================================================================== BOUNDED: rnode_atom's repetition syntax (C11) */
/* every tail of 12 bytes over { digits , { } ) } after a literal 'a': bad, inverted and oversized
 * bounds, missing braces, more digits than an int holds */
void h_rnode_atom_bounded(void)
{
	char p[15];
	int i;
	for (i = 1; i < 13; i++) {
		p[i] = nondet_char();
		__CPROVER_assume((p[i] >= '0' && p[i] <= '9') || p[i] == '{' || p[i] == '}' || p[i] == ',' || p[i] == ')');
	}
	p[0] = 'a';
	p[13] = ')';	/* PAT_OK: the last byte of every pattern handed to regcomp is ')' */
	p[14] = 0;
	char *pp = p;
	struct rnode *n = rnode_atom(&pp);
	H_ASSERT(pp >= p && pp <= p + 14, "rnode_atom: the parser stays inside the pattern string");
	if (n)
		H_ASSERT(0 <= n->mincnt && n->mincnt <= NREPS && (n->maxcnt == -1 || (n->mincnt <= n->maxcnt && n->maxcnt <= NREPS)),
			"rnode_atom: a node that is returned has 0 <= min <= NREPS and max == -1 or min <= max <= NREPS (bad, inverted or oversized bounds reject the pattern)");
#ifdef CANARY
	__CPROVER_assert(0, "canary");
#endif
}

/* ================================================================== BOUNDED: the size estimate covers what the emitter writes (C11) */
/* every tree of depth <= 3 (root with up to two children, each child an atom or a group around an
 * atom), every node type, every repetition pair (min,max) with min in 0..3 and max in {-1, 0..3},
 * min <= max: rnode_count() of the tree is at least the number of instructions rnode_emit() writes,
 * and all writes stay inside an array of exactly rnode_count() entries */
static struct rnode *mk_node(int rn, struct rnode *c1, struct rnode *c2)
{
	struct rnode *n = malloc(sizeof(*n));
	n->rn = rn;
	n->c1 = c1;
	n->c2 = c2;
	n->grp = 1;
	n->ra.ra = RA_ANY;
	n->ra.s = 0;
	n->mincnt = nondet_int();
	n->maxcnt = nondet_int();
	/* what rnode_atom guarantees for every node it returns (units rx.rnode_atom*) */
	__CPROVER_assume(0 <= n->mincnt && n->mincnt <= 3 && (n->maxcnt == -1 || (n->mincnt <= n->maxcnt && n->maxcnt <= 3)));
	return n;
}
static struct rnode *mk_leaf(void)
{
	struct rnode *a = mk_node(RN_ATOM, 0, 0);
	if (nondet_bool())
		return a;
	a->mincnt = 1;	/* the atom inside a group child is repeated exactly once */
	a->maxcnt = 1;
	return mk_node(RN_GRP, a, 0);
}
void h_count_vs_emit(void)
{
	int rn = nondet_int();
	__CPROVER_assume(rn == RN_ATOM || rn == RN_CAT || rn == RN_ALT || rn == RN_GRP);
	struct rnode *root = rn == RN_ATOM ? mk_node(RN_ATOM, 0, 0) :
		rn == RN_GRP ? mk_node(RN_GRP, nondet_bool() ? mk_leaf() : (struct rnode *) 0, 0) : mk_node(rn, mk_leaf(), mk_leaf());
	int cnt = rnode_count(root);
	H_ASSERT(cnt >= 0, "rnode_count: non-negative");
	struct regex re;
	re.n = 0;
	re.flg = 0;
	re.p = malloc((cnt + 1) * sizeof(re.p[0]));	/* exactly the estimate (one spare entry so that an empty program has an array) */
	rnode_emit(root, &re);
	H_ASSERT(re.n <= cnt, "rnode_count >= number of instructions rnode_emit writes: the program fits the memory reserved");
#ifdef CANARY
	__CPROVER_assert(0, "canary");
#endif
}

/* ================================================================== UNBOUNDED, by structural induction: the size estimate covers what the emitter writes (C11) */
/* The tree is abstract: a node n with children c1, c2 whose own estimates are the ghost constants
 * K1, K2 (any values 0..NINST).  Induction hypothesis = the contract of rnode_emit for a child:
 * given room for K(child) instructions it writes at most K(child) instructions, all inside the array.
 *  unit rx.rnode_count   : rnode_count(n) == MIN(COUNTF(n, NOREP(n)), NINST)   (recursive calls by hypothesis)
 *  unit rx.rnode_emitnorep: one copy of n writes at most NOREP(n) instructions    (rnode_emit calls by hypothesis)
 *  unit rx.rnode_emit    : all repetitions of n write at most COUNTF(n, N) instructions, N = what one copy writes
 * regcomp rejects estimates >= NINST, so for an emitted tree no estimate is saturated. */
struct ghost_cnt_in { struct rnode *n, *c1, *c2; int K1, K2; int cap; int N; int e; struct regex *p; } CK;	/* constants */
#define KOF(x) ((x) == 0 ? 0 : (x) == CK.c1 ? CK.K1 : CK.K2)
#define NOREP(rn_) ((rn_) == RN_ALT ? KOF(CK.c1) + KOF(CK.c2) + 2 : (rn_) == RN_CAT ? KOF(CK.c1) + KOF(CK.c2) : (rn_) == RN_GRP ? KOF(CK.c1) + 2 : 1)
/* rnode_count's formula for a node whose single copy takes N instructions (unsaturated) */
#define COUNTF(mi, ma, N) ((mi) == 0 && (ma) == 0 ? 0 : (mi) == 1 && (ma) == 1 ? (N) : \
	((ma) < 0 ? ((mi) + 1) * (N) + 1 : ((mi) + (ma)) * (N) + (ma) - (mi)) + ((mi) == 0 ? 1 : 0))
#ifndef REPS_BOUND
#define REPS_BOUND NREPS
#endif
#define REPS_OK(mi, ma) (0 <= (mi) && (mi) <= REPS_BOUND && ((ma) == -1 || ((mi) <= (ma) && (ma) <= REPS_BOUND)))
#define CK_OK() (0 <= CK.K1 && CK.K1 <= NINST && 0 <= CK.K2 && CK.K2 <= NINST && CK.c1 != CK.n && CK.c2 != CK.n && CK.n != 0)

int rnode_count_contract(struct rnode *rnode)
__CPROVER_requires(CK_OK())
__CPROVER_requires(rnode == 0 || rnode == CK.c1 || rnode == CK.c2 || rnode == CK.n)
__CPROVER_requires(rnode == CK.n ==> (rnode->c1 == CK.c1 && rnode->c2 == CK.c2 && REPS_OK(rnode->mincnt, rnode->maxcnt)))
__CPROVER_assigns()
/* children: the hypothesis; the node itself: the formula over the children's values, saturated at NINST */
__CPROVER_ensures(rnode != CK.n ==> __CPROVER_return_value == KOF(rnode))
#ifndef COUNT_NO_FORMULA	/* equality of two symbolic products: decided only for small repetition counts (unit rx.rnode_count_bounded) */
__CPROVER_ensures(rnode == CK.n ==> __CPROVER_return_value ==
	(COUNTF(rnode->mincnt, rnode->maxcnt, NOREP(rnode->rn)) < NINST ? COUNTF(rnode->mincnt, rnode->maxcnt, NOREP(rnode->rn)) : NINST))
#endif
__CPROVER_ensures(0 <= __CPROVER_return_value && __CPROVER_return_value <= NINST)
;
void h_rnode_count(void)
{
	struct rnode *n = malloc(sizeof(*n));
	CK.n = n; CK.c1 = nondet_bool() ? (struct rnode *) malloc(1) : (struct rnode *) 0; CK.c2 = nondet_bool() ? (struct rnode *) malloc(1) : (struct rnode *) 0;
	CK.K1 = nondet_int(); CK.K2 = nondet_int();
	rnode_count(n);
#ifdef CANARY
	__CPROVER_assert(0, "canary");
#endif
}

/* the induction hypothesis: emitting a child x with room for K(x) instructions */
void rnode_emit_hyp_contract(struct rnode *n, struct regex *p)
__CPROVER_requires(n == 0 || n == CK.c1 || n == CK.c2)
__CPROVER_requires(p == CK.p && 0 <= p->n && p->n <= CK.cap - KOF(n))
__CPROVER_assigns(p->n, __CPROVER_object_whole(p->p))
__CPROVER_ensures(__CPROVER_old(p->n) <= p->n && p->n - __CPROVER_old(p->n) <= KOF(n))
;
void ratom_copy_contract(struct ratom *dst, struct ratom *src)
__CPROVER_requires(dst != 0 && src != 0)
__CPROVER_assigns(dst->ra, dst->s)
;
void rnode_emitnorep_contract(struct rnode *n, struct regex *p)
__CPROVER_requires(0 < CK.cap && CK.cap <= 4 * NINST)
__CPROVER_requires(__CPROVER_is_fresh(n, sizeof(*n)) && n->c1 == CK.c1 && n->c2 == CK.c2)
__CPROVER_requires(__CPROVER_is_fresh(p, sizeof(*p)) && __CPROVER_is_fresh(p->p, CK.cap * sizeof(struct rinst)))
__CPROVER_requires(CK_OK() && n == CK.n && p == CK.p)
/* group numbers are handed out by rnode_grpnum, one per group node: far below 2^30 (assumption GRPNUM) */
__CPROVER_requires(0 <= n->grp && n->grp <= NINST)
__CPROVER_requires(n->rn == RN_ALT || n->rn == RN_CAT || n->rn == RN_GRP || n->rn == RN_ATOM)
/* room for one copy */
__CPROVER_requires(0 <= p->n && p->n <= CK.cap - NOREP(n->rn))
__CPROVER_assigns(p->n, __CPROVER_object_whole(p->p))
__CPROVER_ensures(__CPROVER_old(p->n) <= p->n && p->n - __CPROVER_old(p->n) <= NOREP(n->rn))
;
void h_rnode_emitnorep(void)
{
	struct rnode *n;
	struct regex *p;
	struct rnode *gn; struct regex *gp; CK.n = gn; CK.p = gp; CK.c1 = nondet_bool() ? (struct rnode *) malloc(1) : (struct rnode *) 0; CK.c2 = nondet_bool() ? (struct rnode *) malloc(1) : (struct rnode *) 0;
	CK.K1 = nondet_int(); CK.K2 = nondet_int(); CK.cap = nondet_int();
	rnode_emitnorep(n, p);
#ifdef CANARY
	__CPROVER_assert(0, "canary");
#endif
}

/* one copy of the node, abstractly: at most N instructions */
struct ghost_cnt { int last_start; } CKV;	/* where the most recent copy of the node begins */
void rnode_emitnorep_abs_contract(struct rnode *n, struct regex *p)
__CPROVER_requires(n == CK.n && p == CK.p && 0 <= p->n && p->n <= CK.cap - CK.N)
__CPROVER_assigns(p->n, __CPROVER_object_whole(p->p), CKV.last_start)
__CPROVER_ensures(__CPROVER_old(p->n) <= p->n && p->n - __CPROVER_old(p->n) <= CK.N && CKV.last_start == __CPROVER_old(p->n))
;
void rnode_emit_contract(struct rnode *n, struct regex *p)
__CPROVER_requires(0 < CK.cap && CK.cap <= 4 * NINST && 0 <= CK.N && CK.N <= 2 * NINST + 2)
__CPROVER_requires(__CPROVER_is_fresh(n, sizeof(*n)) && REPS_OK(n->mincnt, n->maxcnt))
__CPROVER_requires(__CPROVER_is_fresh(p, sizeof(*p)) && __CPROVER_is_fresh(p->p, CK.cap * sizeof(struct rinst)))
__CPROVER_requires(n == CK.n && p == CK.p)
/* room for the estimate, and the estimate is not saturated (regcomp rejects >= NINST) */
__CPROVER_requires(p->n == CK.e && 0 <= p->n && COUNTF(n->mincnt, n->maxcnt, CK.N) < NINST && p->n <= CK.cap - COUNTF(n->mincnt, n->maxcnt, CK.N))
__CPROVER_assigns(p->n, __CPROVER_object_whole(p->p), CKV.last_start)
__CPROVER_ensures(__CPROVER_old(p->n) <= p->n && p->n - __CPROVER_old(p->n) <= COUNTF(n->mincnt, n->maxcnt, CK.N))
/* C10 (x* x+ x{m,} are loops): an open-ended repetition ends with a fork whose first (preferred: greedy) branch re-enters the LAST copy of the node and whose second branch leaves */
__CPROVER_ensures((n->maxcnt < 0 && !(n->mincnt == 0 && n->maxcnt == 0)) ==> (p->n >= 1 && p->p[p->n - 1].ri == RI_FORK && p->p[p->n - 1].a1 == CKV.last_start && p->p[p->n - 1].a2 == p->n))
;
#pragma CPROVER check push
#pragma CPROVER check disable "signed-overflow"
#pragma CPROVER check disable "pointer"
#pragma CPROVER check disable "pointer-primitive"
#pragma CPROVER check disable "bounds"
/* first loop: i copies written so far */
static int inv_emit0_unused(int i, int pn, int jc, int mi)
{
	int z = mi == 0, M = MAX(1, mi);
	return 0 <= i && i <= M && jc == z && CK.e + z <= pn && pn <= CK.e + z + i * CK.N;
}
/* second loop: i - M optional copies, each behind one fork */
static int inv_emit1_unused(int i, int pn, int jc, int mi, int ma)
{
	int z = mi == 0, M = MAX(1, mi), f = ma < 0;
	return M <= i && i <= MAX(M, ma) && jc == z + (i - M) && 0 <= jc && jc <= NREPS && CK.e + z <= pn && pn <= CK.e + z + M * CK.N + f + (i - M) * (CK.N + 1);
}
#pragma CPROVER check pop
void h_rnode_emit(void)
{
	struct rnode *n;
	struct regex *p;
	struct rnode *gn; struct regex *gp; CK.n = gn; CK.p = gp; CK.cap = nondet_int(); CK.N = nondet_int(); CK.e = nondet_int();
	rnode_emit(n, p);
#ifdef CANARY
	__CPROVER_assert(0, "canary");
#endif
}

/* ================================================================== regcomp: reserves estimate + 3 entries, rejects saturated estimates (C11) */
struct ghost_rc_in { struct rnode *root; int K; } RK;	/* constants */
struct ghost_rc { int freed; int emitted; int parsed; } RKV;
struct rnode *rnode_parse_top_contract(char **pat)
__CPROVER_requires(pat != 0)
__CPROVER_assigns(*pat, RKV.parsed)
__CPROVER_ensures((__CPROVER_return_value == 0 && RKV.parsed == 0) || (__CPROVER_return_value == RK.root && RK.root != 0 && RKV.parsed == 1))
;
int rnode_count_top_contract(struct rnode *rnode)
__CPROVER_requires(rnode == 0 || rnode == RK.root)
__CPROVER_assigns()
__CPROVER_ensures(__CPROVER_return_value == (rnode ? RK.K : 0))
;
int rnode_grpnum_top_contract(struct rnode *rnode, int num)
__CPROVER_requires(rnode == RK.root && rnode != 0)
__CPROVER_assigns()
;
void rnode_free_top_contract(struct rnode *rnode)
__CPROVER_requires(rnode == RK.root && rnode != 0 && !RKV.freed)
__CPROVER_assigns(RKV.freed)
__CPROVER_ensures(RKV.freed == 1)
;
/* the emitter as proved by units rx.rnode_emit*, rx.rnode_emitnorep: given room for the (unsaturated) estimate it writes at most that many instructions */
void rnode_emit_top_contract(struct rnode *n, struct regex *p)
__CPROVER_requires(n == RK.root && n != 0 && p != 0 && !RKV.freed)
__CPROVER_requires(RK.K < NINST && 0 <= p->n && ((long) p->n + RK.K) * (long) sizeof(struct rinst) <= (long) __CPROVER_OBJECT_SIZE(p->p) && __CPROVER_POINTER_OFFSET(p->p) == 0)
__CPROVER_assigns(p->n, __CPROVER_object_whole(p->p), RKV.emitted)
__CPROVER_ensures(__CPROVER_old(p->n) <= p->n && p->n - __CPROVER_old(p->n) <= RK.K && RKV.emitted == 1)
;
int regcomp_frame_contract(regex_t *preg, char *pat, int flg)
__CPROVER_requires(preg != 0)
__CPROVER_assigns(*preg, RKV)
;
void h_regcomp(void)
{
	regex_t re = 0;
	char pat[4];
	int flg = nondet_int();
	RK.root = nondet_bool() ? (struct rnode *) malloc(1) : (struct rnode *) 0;
	RK.K = nondet_int();
	__CPROVER_assume(0 <= RK.K && RK.K <= NINST);	/* rx.rnode_count: the estimate lies in 0..NINST */
	RKV.freed = 0; RKV.emitted = 0; RKV.parsed = 0;
	int r = regcomp(&re, pat, flg);
	if (r) {
		H_ASSERT(re == 0 && !RKV.emitted, "regcomp: a rejected pattern produces no program");
		H_ASSERT(!RKV.parsed || RKV.freed, "regcomp: the tree of a rejected pattern is released");
		H_ASSERT(!RKV.parsed || RK.K >= NINST, "regcomp: a parsed pattern is rejected only when its size estimate is saturated");
	} else {
		H_ASSERT(RK.root != 0 && RK.K < NINST && RKV.emitted && RKV.freed, "regcomp: success means parsed, estimate not saturated, emitted, tree released");
		H_ASSERT(re != 0 && re->p != 0 && 3 <= re->n && (long) re->n * (long) sizeof(struct rinst) <= (long) __CPROVER_OBJECT_SIZE(re->p), "regcomp: the program fits the memory reserved for it");
		H_ASSERT(re->n <= RK.K + 3, "regcomp: at most estimate + 3 instructions");
		H_ASSERT(re->p[re->n - 2].ri == RI_MARK && re->p[re->n - 2].mark == 1 && re->p[re->n - 1].ri == RI_MATCH, "regcomp: the program ends with mark 1, match");
		H_ASSERT(re->flg == flg, "regcomp: the flags are stored");
	}
#ifdef CANARY
	__CPROVER_assert(0, "canary");
#endif
}

/* ================================================================== BOUNDED: ratom_read stays inside the pattern string (C11, C16) */
/* every pattern tail of up to 4 bytes (all byte values, ill-formed UTF-8 included) followed by
 * ')' and the terminator (rset_make wraps every pattern in parentheses): the atom reader never
 * reads or steps past the terminator, and the literal it copies is a prefix of the tail */
void h_ratom_read_bounded(void)
{
	char p[7];
	int i, n = nondet_int();
	struct ratom ra;
	__CPROVER_assume(1 <= n && n <= 4);
	for (i = 0; i < 5; i++)
		p[i] = nondet_char();
	for (i = 0; i < 4; i++)
		__CPROVER_assume(i >= n || p[i] != 0);
	p[n] = ')';
	p[n + 1] = 0;
	char *pat = p;
	ra.s = 0;
	ratom_read(&ra, &pat);
	H_ASSERT(pat > p && pat <= p + n + 1, "ratom_read: the reader consumes at least one byte and stops at or before the terminator");
	if (ra.ra == RA_CHR)
		H_ASSERT(ra.s != 0 && ra.s[pat - p - (p[0] == '\\' ? 1 : 0)] == 0, "ratom_read: the literal copied is exactly the bytes consumed");
	/* C16: on a well-formed tail the run ends on a character boundary, and a repetition operator applies to one whole character */
	int l0 = uc_len(p), wf = 1;
	for (i = 1; i < 4; i++)
		if (i < l0 && (i >= n || ((unsigned char) p[i] & 0xc0) != 0x80))
			wf = 0;
	if (((unsigned char) p[0] & 0xc0) == 0x80 || (unsigned char) p[0] >= 0xf8 || l0 > n)
		wf = 0;
	if (wf && l0 + 1 == n && ra.ra == RA_CHR && p[0] != '\\' && (p[l0] == '*' || p[l0] == '?' || p[l0] == '+' || p[l0] == '{'))
		H_ASSERT(pat == p + l0, "ratom_read: a repetition operator applies to one whole character");
	if (wf && l0 == n && ra.ra == RA_CHR && p[0] != '\\')
		H_ASSERT(pat == p + n, "ratom_read: a literal character is consumed whole (the run ends on a character boundary)");
#ifdef CANARY
	__CPROVER_assert(0, "canary");
#endif
}

/* ================================================================== ratom_match: anchors, word boundaries, any-character (C10) */
/* full domain over a window of the subject line: 3 bytes of left context (ASCII), the character
 * under the match position (any well-formed character of 1..2 bytes or the terminator), all flag
 * combinations.  "A reported match really matches in that context." */
#define RM_WORD(c)	(((c) >= 'a' && (c) <= 'z') || ((c) >= 'A' && (c) <= 'Z') || ((c) >= '0' && (c) <= '9') || (c) == '_' || (c) > 127)
void h_ratom_anchor(void)
{
	unsigned char w[8];
	struct ratom ra;
	struct rstate rs;
	int k = nondet_int(), i, flg = nondet_int(), kind = nondet_int();
	for (i = 0; i < 7; i++)
		w[i] = nondet_uchar();
	w[7] = 0;
	__CPROVER_assume(0 <= k && k <= 3);
	/* left context: ASCII bytes, none of them the terminator */
	for (i = 0; i < 3; i++)
		__CPROVER_assume(w[i] != 0 && w[i] < 0x80);
	/* the character at the position: terminator, ASCII, or a two-byte character */
	__CPROVER_assume(w[3] < 0x80 || ((w[3] & 0xe0) == 0xc0 && (w[4] & 0xc0) == 0x80));
	__CPROVER_assume(kind == RA_BEG || kind == RA_END || kind == RA_WBEG || kind == RA_WEND || kind == RA_ANY);
	__CPROVER_assume((flg & ~(REG_ICASE | REG_NEWLINE | REG_NOTBOL | REG_NOTEOL)) == 0);
	ra.ra = kind; ra.s = 0;
	rs.o = (char *) w + (3 - k);	/* the line starts k bytes before the position */
	rs.s = (char *) w + 3;
	rs.flg = flg; rs.pc = 0; rs.dep = 0;
	int r = ratom_match(&ra, &rs);
	int at_start = k == 0;
	unsigned char cur = w[3], prev = w[2];
	int clen = cur < 0x80 ? 1 : 2;
	if (kind == RA_BEG) {
		H_ASSERT((r == 0) == ((at_start && !(flg & REG_NOTBOL)) || (!at_start && prev == '\n' && (flg & REG_NEWLINE))), "ratom_match: ^ matches at the true start of the line (not when the caller says this is not the line start), or after a newline in newline mode");
		H_ASSERT(rs.s == (char *) w + 3, "ratom_match: an anchor consumes nothing");
	} else if (kind == RA_END) {
		H_ASSERT((r == 0) == ((cur == 0 && !(flg & REG_NOTEOL)) || (cur == '\n' && (flg & REG_NEWLINE))), "ratom_match: $ matches at the end of the line (unless the caller says this is not the line end), or before a newline in newline mode");
		H_ASSERT(rs.s == (char *) w + 3, "ratom_match: an anchor consumes nothing");
	} else if (kind == RA_WBEG) {
		H_ASSERT((r == 0) == ((at_start || !RM_WORD(prev)) && cur != 0 && RM_WORD(cur)), "ratom_match: \\< matches where a word character follows and none precedes");
		H_ASSERT(rs.s == (char *) w + 3, "ratom_match: a word boundary consumes nothing");
	} else if (kind == RA_WEND) {
		H_ASSERT((r == 0) == (!at_start && RM_WORD(prev) && (cur == 0 || !RM_WORD(cur))), "ratom_match: \\> matches where a word character precedes and none follows");
		H_ASSERT(rs.s == (char *) w + 3, "ratom_match: a word boundary consumes nothing");
	} else {
		H_ASSERT((r == 0) == (cur != 0 && !(cur == '\n' && (flg & REG_NEWLINE))), "ratom_match: . matches any character except the terminator (and the newline in newline mode)");
		if (r == 0)
			H_ASSERT(rs.s == (char *) w + 3 + clen, "ratom_match: . consumes exactly one character");
	}
#ifdef CANARY
	__CPROVER_assert(0, "canary");
#endif
}

/* ================================================================== BOUNDED: ratom_match for a literal run (C10, C12) */
/* every ASCII literal of 1..3 bytes against every ASCII subject tail of up to 4 bytes, with and
 * without case folding: the atom matches iff the subject continues with the literal (letters
 * compared without regard to case when folding), and then consumes exactly the literal's length */
#define FOLD(c)	(((c) >= 'A' && (c) <= 'Z') ? (c) + ('a' - 'A') : (c))
void h_ratom_chr_bounded(void)
{
	char lit[4], sub[5];
	struct ratom ra;
	struct rstate rs;
	int i, n = nondet_int(), m = nondet_int(), icase = nondet_bool();
	__CPROVER_assume(1 <= n && n <= 3 && 0 <= m && m <= 4);
	for (i = 0; i < 3; i++) {
		lit[i] = nondet_char();
		__CPROVER_assume(i >= n || (lit[i] > 0));
	}
	for (i = 0; i < 4; i++) {
		sub[i] = nondet_char();
		__CPROVER_assume(i >= m || (sub[i] > 0));
	}
	lit[n] = 0;
	sub[m] = 0;
	ra.ra = RA_CHR; ra.s = lit;
	rs.o = sub; rs.s = sub; rs.flg = icase ? REG_ICASE : 0; rs.pc = 0; rs.dep = 0;
	int r = ratom_match(&ra, &rs);
	int same = 1;
	for (i = 0; i < 3; i++)
		if (i < n && (i >= m || (icase ? FOLD(lit[i]) != FOLD(sub[i]) : lit[i] != sub[i])))
			same = 0;
	H_ASSERT((r == 0) == same, "ratom_match: a literal matches exactly where the subject continues with it (letters without regard to case when folding)");
	if (r == 0)
		H_ASSERT(rs.s == sub + n, "ratom_match: a matched literal is consumed whole");
#ifdef CANARY
	__CPROVER_assert(0, "canary");
#endif
}
