/* proof unit for lbuf_wordbeg of /repo/mot.c (w b W B) - the real file, included verbatim */
#include "pre.h"
#include "mot.c"
#include "libc.spec.h"
#include "motwb.spec.h"
