/* ec_make / ec_exec: refuse to run a shell command while the buffer is modified (C02); no overrun
 * when the command line is assembled (C05); ":range!cmd" filters exactly the range (C06) */
int xwa, xvis, xrow, xoff;
struct ghost_mk_in { int dirty, expand_ok, exec_ret, region_ret, rb, re, has_out; long tlen; } MKI;	/* constants */
struct ghost_mk { int mod_calls, exec_calls, print_calls, pipe_calls, cp_calls, cp_beg, cp_end, edit_calls, edit_beg, edit_end; char *edit_text, *pipe_cmd, *pipe_in; char *exec_cmd; int bad; } MK;
static char g_target[1024], g_mkcp[2], g_mkout[2];
static struct lbuf { int d; } g_mklb;
struct lbuf *ex_lbuf(void) { return &g_mklb; }
static long strlen_hook(const char *s) { return s == g_target ? MKI.tlen : -1; }
static int bufs_modified(int idx, char *msg) { MK.mod_calls++; return MKI.dirty; }
/* ex_pathexpand: NULL or a string of at most 1023 bytes in its static buffer */
static char *ex_pathexpand(char *src, int spaceallowed) { return MKI.expand_ok ? g_target : (char *) 0; }
/* what the formatted text needs: the literal characters of the format plus the argument plus the terminator */
static int verif_sprintf3(char *s, const char *fmt, const char *arg)
{
	__CPROVER_assert(arg == g_target && fmt != 0, "sprintf: the expanded target is formatted");
	__CPROVER_assert((long) __CPROVER_OBJECT_SIZE(s) - (long) __CPROVER_POINTER_OFFSET(s) >= 5 + MKI.tlen + 1, "sprintf: the destination holds \"make \" + the target + the terminator");
	return (int) (5 + MKI.tlen);
}
static int verif_snprintf4(char *s, unsigned long n, const char *fmt, const char *arg)
{
	__CPROVER_assert(arg == g_target && fmt != 0, "snprintf: the expanded target is formatted");
	__CPROVER_assert((unsigned long) ((long) __CPROVER_OBJECT_SIZE(s) - (long) __CPROVER_POINTER_OFFSET(s)) >= n, "snprintf: the size handed over is not larger than the destination");
	return (int) (5 + MKI.tlen);
}
void ex_print(char *line) { MK.print_calls++; }
int cmd_exec(char *cmd) { MK.exec_calls++; MK.exec_cmd = cmd; return MKI.exec_ret; }
static int ex_region(char *loc, int *beg, int *end)
{
	if (MKI.region_ret)
		return 1;
	*beg = MKI.rb; *end = MKI.re;
	return 0;
}
char *lbuf_cp(struct lbuf *lb, int beg, int end) { MK.cp_calls++; MK.cp_beg = beg; MK.cp_end = end; return g_mkcp; }
char *cmd_pipe(char *cmd, char *ibuf, int oproc) { MK.pipe_calls++; MK.pipe_cmd = cmd; MK.pipe_in = ibuf; if (oproc != 1) MK.bad = 1; return MKI.has_out ? g_mkout : (char *) 0; }
void lbuf_edit(struct lbuf *lb, char *s, int beg, int end) { MK.edit_calls++; MK.edit_text = s; MK.edit_beg = beg; MK.edit_end = end; }
void free(void *p) { }
#define MK_INIT() do { GHOST_INIT(); \
	MKI.dirty = nondet_bool(); MKI.expand_ok = nondet_bool(); MKI.exec_ret = nondet_int(); MKI.region_ret = nondet_bool(); MKI.rb = nondet_int(); MKI.re = nondet_int(); MKI.has_out = nondet_bool(); MKI.tlen = nondet_long(); \
	__CPROVER_assume(0 <= MKI.tlen && MKI.tlen <= 1023 && 0 <= MKI.rb && MKI.rb <= MKI.re && MKI.re <= 0x1000000); \
	g_target[MKI.tlen] = 0; xwa = nondet_bool(); \
	MK.mod_calls = MK.exec_calls = MK.print_calls = MK.pipe_calls = MK.cp_calls = MK.edit_calls = MK.bad = 0; } while (0)
void h_ec_make(void)
{
	char loc[2], cmd[2], arg[2];
	MK_INIT();
	loc[0] = 0; cmd[0] = 'm'; cmd[1] = 0; arg[0] = nondet_char(); arg[1] = 0;
	int ret = ec_make(loc, cmd, arg, 0);
	if (!xwa && MKI.dirty)
		H_ASSERT(ret == 1 && MK.exec_calls == 0, "ec_make: a modified buffer blocks :make (nothing is run) unless writeany is set");
	else if (!MKI.expand_ok)
		H_ASSERT(ret == 1 && MK.exec_calls == 0, "ec_make: a target that does not expand fails the command");
	else
		H_ASSERT(MK.exec_calls == 1 && ret == (MKI.exec_ret ? 1 : 0), "ec_make: make runs once; its failure fails the command");
#ifdef CANARY
	__CPROVER_assert(0, "canary");
#endif
}
void h_ec_exec(void)
{
	char loc[2], cmd[2], arg[2];
	MK_INIT();
	loc[0] = nondet_char(); loc[1] = 0; cmd[0] = '!'; cmd[1] = 0; arg[0] = nondet_char(); arg[1] = 0;
	int ret = ec_exec(loc, cmd, arg, 0);
	if (!xwa && MKI.dirty)
		H_ASSERT(ret == 1 && MK.exec_calls == 0 && MK.pipe_calls == 0 && MK.edit_calls == 0, "ec_exec: a modified buffer blocks :! (nothing is run) unless writeany is set");
	else if (!MKI.expand_ok)
		H_ASSERT(ret == 1 && MK.exec_calls == 0 && MK.pipe_calls == 0, "ec_exec: a command that does not expand fails");
	else if (!loc[0])
		H_ASSERT(MK.exec_calls == 1 && MK.exec_cmd == g_target && MK.pipe_calls == 0 && MK.edit_calls == 0 && ret == MKI.exec_ret, "ec_exec: without a range the command just runs; the text is not touched");
	else if (MKI.region_ret)
		H_ASSERT(ret == 1 && MK.pipe_calls == 0 && MK.edit_calls == 0, "ec_exec: a range that does not resolve fails the command, nothing is run");
	else {
		H_ASSERT(!MK.bad && MK.cp_calls == 1 && MK.cp_beg == MKI.rb && MK.cp_end == MKI.re && MK.pipe_calls == 1 && MK.pipe_cmd == g_target && MK.pipe_in == g_mkcp, "ec_exec: exactly the addressed lines are handed to the command");
		if (MKI.has_out)
			H_ASSERT(MK.edit_calls == 1 && MK.edit_text == g_mkout && MK.edit_beg == MKI.rb && MK.edit_end == MKI.re, "ec_exec: the command's output replaces exactly the addressed lines");
		else
			H_ASSERT(MK.edit_calls == 0, "ec_exec: a command that could not be run leaves the text unchanged");
	}
#ifdef CANARY
	__CPROVER_assert(0, "canary");
#endif
}


/* ================================================================== ec_print (C06: "printed output and current line") and ec_rs (register set) */
struct ghost_pt_in { int nlines; } PTI;
struct ghost_pt { int printed, next, bad; int put_calls, put_reg, put_ln; char *put_text; } PT;
static char g_ptline[2];
int lbuf_len(struct lbuf *lb) { return PTI.nlines; }
char *lbuf_get(struct lbuf *lb, int pos)
{
	if (pos != PT.next)
		PT.bad = 1;	/* lines are printed in order, none skipped, none twice */
	PT.next = pos + 1;
	return pos >= 0 && pos < PTI.nlines ? g_ptline : (char *) 0;
}
void reg_put(int c, char *s, int ln) { PT.put_calls++; PT.put_reg = c; PT.put_text = s; PT.put_ln = ln; }
int ec_print_frame_contract(char *loc, char *cmd, char *arg, char *txt)
__CPROVER_requires(loc != 0 && cmd != 0)
__CPROVER_assigns(MK, PT, xrow, xoff)
;
void h_ec_print(void)
{
	char loc[2], cmd[2], arg[2];
	MK_INIT();
	PTI.nlines = nondet_int();
	__CPROVER_assume(0 <= PTI.nlines && PTI.nlines <= 0x1000000 && MKI.re <= PTI.nlines);
	loc[0] = nondet_char(); loc[1] = 0; cmd[0] = nondet_char(); cmd[1] = 0; arg[0] = 0;
	xrow = nondet_int(); xoff = nondet_int();
	__CPROVER_assume(0 <= xrow && xrow <= 0x1000000);
	PT.printed = 0; PT.next = MKI.rb; PT.bad = 0;
	int row0 = xrow;
	int ret = ec_print(loc, cmd, arg, 0);
	if ((!cmd[0] && !loc[0] && row0 >= PTI.nlines) || MKI.region_ret) {
		H_ASSERT(ret == 1 && MK.print_calls == 0 && xrow == row0, "ec_print: an address that does not resolve prints nothing and leaves the current line alone");
	} else {
		H_ASSERT(ret == 0 && !PT.bad && MK.print_calls == MKI.re - MKI.rb && PT.next == (MKI.re > MKI.rb ? MKI.re : MKI.rb), "ec_print: exactly the addressed lines are printed, in order, each once");
		H_ASSERT(xrow == (MKI.re - 1 > MKI.rb ? MKI.re - 1 : MKI.rb) && xoff == 0, "ec_print: the current line becomes the last line printed");
		H_ASSERT(MK.edit_calls == 0, "ec_print: the buffer is not changed");
	}
#ifdef CANARY
	__CPROVER_assert(0, "canary");
#endif
}
void h_ec_rs(void)
{
	char loc[2], cmd[3], arg[3], txt[2];
	MK_INIT();
	loc[0] = 0; cmd[0] = 'r'; cmd[1] = 's'; cmd[2] = 0; txt[0] = nondet_char(); txt[1] = 0;
	arg[0] = nondet_char(); arg[1] = nondet_char(); arg[2] = 0;
	PT.put_calls = 0;
	int ret = ec_rs(loc, cmd, arg, txt);
	int reg = arg[0] != '\\' ? (unsigned char) arg[0] : 0x80 | (unsigned char) arg[1];
	H_ASSERT(ret == 0 && PT.put_calls == 1 && PT.put_reg == reg && PT.put_text == txt && PT.put_ln == 1, "ec_rs: the text given becomes the line-wise content of the register named (\\x names the registers above 127)");
	H_ASSERT(0 <= PT.put_reg && PT.put_reg < 256, "ec_rs: the register index is inside the register table");
#ifdef CANARY
	__CPROVER_assert(0, "canary");
#endif
}


/* ================================================================== ec_undo / ec_redo (C04: ":u" and ":redo" are exactly one history step) */
struct ghost_ur { int undo_calls, redo_calls, ret; } UR;
int lbuf_undo(struct lbuf *lb) { UR.undo_calls++; return UR.ret; }
int lbuf_redo(struct lbuf *lb) { UR.redo_calls++; return UR.ret; }
void h_ec_undo_redo(void)
{
	char loc[2], cmd[2], arg[2];
	int which = nondet_bool();
	MK_INIT();
	loc[0] = 0; cmd[0] = 'u'; cmd[1] = 0; arg[0] = 0;
	UR.undo_calls = UR.redo_calls = 0; UR.ret = nondet_int();
	int r = which ? ec_undo(loc, cmd, arg, 0) : ec_redo(loc, cmd, arg, 0);
	H_ASSERT(r == UR.ret && UR.undo_calls == (which ? 1 : 0) && UR.redo_calls == (which ? 0 : 1) && MK.edit_calls == 0, "ec_undo / ec_redo: exactly one undo / redo step of the current buffer, its failure reported; nothing else is touched");
#ifdef CANARY
	__CPROVER_assert(0, "canary");
#endif
}


/* ================================================================== ec_source (":so file": the file's text is executed as ex commands) (C05, C06) */
struct ghost_so_in { int has_cur, open_ok; } SOI;
struct ghost_so { int open_calls, reads, chunks, appended, cmd_calls, eof, bad; char *cmd_text; } SO;
static char g_sopath[2], g_sotext[2];
static struct sbuf { int d; } g_sosb;
char *ex_path(void) { return SOI.has_cur ? g_sopath : (char *) 0; }
static int verif_open(const char *path, int flags)
{
	__CPROVER_assert(path != 0, "open: path is not NULL");
	SO.open_calls++;
	return SOI.open_ok ? 7 : -1;
}
ssize_t read(int fd, void *buf, size_t n)
{
	__CPROVER_assert(fd == 7 && __CPROVER_w_ok(buf, n), "read: the opened file, a writable buffer");
	long r = nondet_long();
	__CPROVER_assume(-1 <= r && r <= (long) n);
	SO.reads = SO.reads < 1000000 ? SO.reads + 1 : 1000000;
	if (SO.eof)
		SO.bad = 1;	/* reading on after the end */
	if (r > 0)
		SO.chunks = SO.chunks < 1000000 ? SO.chunks + 1 : 1000000;
	else
		SO.eof = 1;
	return r;
}
struct sbuf *sbuf_make(void) { return &g_sosb; }
void sbuf_mem(struct sbuf *sb, char *s, int len) { SO.appended = SO.appended < 1000000 ? SO.appended + 1 : 1000000; }
char *sbuf_buf(struct sbuf *sb) { return g_sotext; }
void sbuf_free(struct sbuf *sb) { }
int ex_command(char *ln) { SO.cmd_calls++; SO.cmd_text = ln; return nondet_int(); }
int ec_source_frame_contract(char *loc, char *cmd, char *arg, char *txt)
__CPROVER_requires(arg != 0)
__CPROVER_assigns(SO, MK)
;
void h_ec_source(void)
{
	char loc[2], cmd[3], arg[2];
	MK_INIT();
	SOI.has_cur = nondet_bool(); SOI.open_ok = nondet_bool();
	loc[0] = 0; cmd[0] = 's'; cmd[1] = 'o'; cmd[2] = 0; arg[0] = nondet_char(); arg[1] = 0;
	g_sopath[0] = nondet_char(); g_sopath[1] = 0;
	g_target[0] = nondet_char();
	SO.open_calls = SO.reads = SO.chunks = SO.appended = SO.cmd_calls = SO.eof = SO.bad = 0;
	int ret = ec_source(loc, cmd, arg, 0);
	char *path = arg[0] ? (MKI.expand_ok ? g_target : (char *) 0) : (SOI.has_cur ? g_sopath : (char *) 0);
	if (!path || !path[0] || !SOI.open_ok) {
		H_ASSERT(ret == 1 && SO.cmd_calls == 0 && SO.reads == 0, "ec_source: no path (a % or # that is not set included), an empty path or a file that cannot be opened: the command fails, nothing is executed");
	} else {
		H_ASSERT(ret == 0 && !SO.bad && SO.eof && SO.appended == SO.chunks, "ec_source: the file is read to its end, every chunk appended once");
		H_ASSERT(SO.cmd_calls == 1 && SO.cmd_text == g_sotext, "ec_source: the text read is executed once as ex commands");
	}
#ifdef CANARY
	__CPROVER_assert(0, "canary");
#endif
}
