/* contracts and harnesses for /repo/rstr.c (C12: literal fast path == general engine) */

#define MAXL	0x7ffffff0L

/* ---- rstr_simple: the classifier ------------------------------------------------------ */
/* the operator set of the ERE grammar the engine accepts (regex.c ratom_read / rnode_atom / rnode_parse) */
#define IS_OP(c) ((c) == '\\' || (c) == '.' || (c) == '*' || (c) == '+' || (c) == '?' || (c) == '[' || \
	(c) == ']' || (c) == '{' || (c) == '}' || (c) == '(' || (c) == ')' || (c) == '$' || (c) == '|' || (c) == '^')

/* BOUNDED stand-in: every pattern of at most 8 bytes over all byte values (the classifier has no
 * size-dependent behaviour beyond its scan loop; the unbounded version needs "no NUL before the end
 * of the pattern" at the position where the scan stops, which one witness cannot instantiate) */
void h_rstr_simple(void)
{
	char re[9];
	struct rstr rsv, *rs = &rsv;
	int i, n = nondet_int();
	__CPROVER_assume(0 <= n && n <= 8);
	for (i = 0; i < 9; i++) {
		re[i] = nondet_char();
		__CPROVER_assume(i >= n || re[i] != 0);
	}
	re[n] = 0;
	rs->str = 0;
	int ret = rstr_simple(rs, re);
	H_ASSERT(ret == 0 || ret == 1, "rstr_simple: returns 0 or 1");
	if (ret == 0) {
		int b = (rs->lbeg ? 1 : 0) + (rs->wbeg ? 2 : 0);
		int e = n - (rs->lend ? 1 : 0) - (rs->wend ? 2 : 0);
		H_ASSERT(!!rs->lbeg == (re[0] == '^'), "rstr_simple: line-start flag iff the pattern starts with ^");
		H_ASSERT(!rs->wbeg || (re[b - 2] == '\\' && re[b - 1] == '<'), "rstr_simple: word-start flag only for \\< after the optional ^");
		H_ASSERT(!rs->lend || re[n - 1] == '$', "rstr_simple: line-end flag only for a final $");
		H_ASSERT(!rs->wend || (re[e] == '\\' && re[e + 1] == '>'), "rstr_simple: word-end flag only for \\> before the optional $");
		H_ASSERT(b <= e, "rstr_simple: prefix and suffix do not overlap");
		for (i = 0; i < 8; i++)
			if (b <= i && i < e) {
				H_ASSERT(!IS_OP(re[i]), "rstr_simple: a pattern containing a regular-expression operator in its literal part is never treated as a literal");
				H_ASSERT(rs->str[i - b] == re[i], "rstr_simple: the literal copied out is the middle part of the pattern, byte for byte");
			}
		H_ASSERT(rs->str != 0 && rs->str[e - b] == 0, "rstr_simple: the literal is NUL-terminated at its length");
	}
#ifdef CANARY
	__CPROVER_assert(0, "canary");
#endif
}

/* ---- rstr_find, literal path ---------------------------------------------------------- */
/* the line: L bytes, then '\n', then NUL  (every stored line ends in exactly one '\n': LB_OK) */
long g_L, g_len;	/* line length without the newline, literal length */
long g_q;		/* witness start position */
int g_j2;		/* witness group index */
int g_w2;		/* witness index into the offsets array */
char *g_s;		/* the line */
char *g_lit;		/* the literal (rs->str) */
_Bool __CPROVER_uninterpreted_occ(const char *at);	/* "the literal occurs at this position (case-folded if icase)" */
#define OCC(p)	__CPROVER_uninterpreted_occ(g_s + (p))
#define WORDB(b)	(verif_ctype((unsigned char) (b), _ISalnum) || (b) == '_' || (unsigned char) (b) > 127)
#define W(i)	WORDB(g_s[i])
/* the atoms of the general engine (regex.c ratom_match) for ^ \< literal \> $ at start p, on a
 * newline-terminated line, flags NOTBOL / (NOTEOL is irrelevant before a newline) */
#define MATCHW(rs, p, notbol) (OCC(p) && \
	(!(rs)->lbeg || ((p) == 0 && !(notbol))) && \
	(!(rs)->wbeg || (((p) == 0 || !W((p) - 1)) && W(p))) && \
	(!(rs)->wend || ((p) + g_len != 0 && W((p) + g_len - 1) && !W((p) + g_len))) && \
	(!(rs)->lend || (p) + g_len == g_L))

/* match_case as seen by rstr_find: 0 iff the literal occurs at s (proved against bytes in unit rstr.match_case) */
int match_case_contract(char *s, char *r, int icase)
__CPROVER_requires(s != 0 && r != 0)
__CPROVER_assigns()
__CPROVER_ensures((__CPROVER_return_value == 0) == __CPROVER_uninterpreted_occ(s))
;

/* loop invariants of rstr_find as pure functions (pointer positions through offsets) */
#pragma CPROVER check push
#pragma CPROVER check disable "pointer"
#pragma CPROVER check disable "pointer-primitive"
#pragma CPROVER check disable "pointer-overflow"
#pragma CPROVER check disable "signed-overflow"
#pragma CPROVER check disable "bounds"
_Bool inv_rstr_find(struct rstr *rs, char *s, char *r, char *beg, char *end, int flg)
{
	if (!__CPROVER_same_object(r, s) || !__CPROVER_same_object(beg, s) || !__CPROVER_same_object(end, s))
		return 0;
	long ro = __CPROVER_POINTER_OFFSET(r), bo = __CPROVER_POINTER_OFFSET(beg), eo = __CPROVER_POINTER_OFFSET(end);
	if (ro < bo || ro > eo + 1)
		return 0;
	if (bo <= g_q && g_q < ro && MATCHW(rs, g_q, flg & RE_NOTBOL))
		return 0;	/* every start position already passed is a non-match */
	return 1;
}
_Bool inv_rstr_grps(int *grps, int i, int n, char *r, char *s, int len)
{
	if (i < 1 || i > n)
		return 0;
	if (1 <= g_j2 && g_j2 < i && (grps[2 * g_j2] != -1 || grps[2 * g_j2 + 1] != -1))
		return 0;
	long ro = __CPROVER_POINTER_OFFSET(r);
	return grps[0] == ro && grps[1] == ro + len;
}
#pragma CPROVER check pop

int rstr_find_contract(struct rstr *rs, char *s, int n, int *grps, int flg)
__CPROVER_requires(__CPROVER_is_fresh(rs, sizeof(*rs)) && rs->rs == 0)
__CPROVER_requires(0 <= g_L && g_L <= MAXL && 0 <= g_len && g_len <= MAXL)
__CPROVER_requires(__CPROVER_is_fresh(s, g_L + 2) && s[g_L] == '\n' && s[g_L + 1] == 0 && g_s == s)
__CPROVER_requires(g_mk >= (unsigned long) g_L || s[g_mk] != 0)
__CPROVER_requires(__CPROVER_is_fresh(rs->str, g_len + 1) && rs->str[g_len] == 0 && (g_mk >= (unsigned long) g_len || rs->str[g_mk] != 0))
__CPROVER_requires(g_lit == rs->str)
__CPROVER_requires(0 <= n && n <= 16)
/* callers hand in an array of 32 ints (ec_substitute, ec_glob: n = 16) or fewer pairs; the unit gives 32 ints and
 * (for n == 0 the callers pass NULL; the function never reads grps and writes it only under n >= 1) */
__CPROVER_requires(__CPROVER_is_fresh(grps, sizeof(int) * 32))
__CPROVER_requires(-4 <= g_q && g_q <= MAXL && 0 <= g_w2 && g_w2 < 32)
/* the literal is not longer than the line: for longer literals the code computes `end` BEFORE the
 * start of the line and relies on `end < beg` for such a pointer, which ISO C leaves undefined and
 * CBMC does not model (assumption, listed; real compilers return -1 there) */
__CPROVER_requires(g_len <= g_L)
/* callers pass 0 or RE_NOTBOL (call-site fact: RE_NOTEOL is never given to rstr_find) */
__CPROVER_requires(flg == 0 || flg == RE_NOTBOL)
__CPROVER_assigns(__CPROVER_object_whole(grps))
__CPROVER_ensures(__CPROVER_return_value == 0 || __CPROVER_return_value == -1)
/* found: the reported start is a match by the engine's atoms, nothing to its left is (leftmost), offsets exact */
__CPROVER_ensures((__CPROVER_return_value == 0 && n >= 1) ==> (
	0 <= grps[0] && grps[0] + g_len <= g_L && grps[1] == grps[0] + g_len && MATCHW(rs, grps[0], flg & RE_NOTBOL)))
__CPROVER_ensures((__CPROVER_return_value == 0 && n >= 1 && 0 <= g_q && g_q < grps[0]) ==> !MATCHW(rs, g_q, flg & RE_NOTBOL))
/* every capture group other than the whole match is reported unset */
__CPROVER_ensures((__CPROVER_return_value == 0 && 1 <= g_j2 && g_j2 < n) ==> (grps[2 * g_j2] == -1 && grps[2 * g_j2 + 1] == -1))
/* not found: no position of the line is a match */
__CPROVER_ensures((__CPROVER_return_value == -1 && 0 <= g_q && g_q + g_len <= g_L) ==> !MATCHW(rs, g_q, flg & RE_NOTBOL))
;

void h_rstr_find(void)
{
	struct rstr *rs;
	char *s;
	int n, flg, *grps;
	GHOST_INIT();
	g_L = nondet_long(); g_len = nondet_long(); g_q = nondet_long(); g_j2 = nondet_int(); g_w2 = nondet_int();
	g_s = nondet_ptr();
	g_lit = nondet_ptr();
	rstr_find(rs, s, n, grps, flg);
#ifdef CANARY
	__CPROVER_assert(0, "canary");
#endif
}

/* ghost-known lengths of the two strings of the rstr_find unit */
long strlen_hook(const char *p)
{
	if (g_s && p == g_s)
		return g_L + 1;
	if (g_lit && p == g_lit)
		return g_len;
	return -1;
}

/* ---- match_case against bytes: BOUNDED stand-in (line <= 7 bytes, literal <= 4 bytes) ----
 * The unbounded version needs "no NUL before the end of the literal" at the position where the
 * loop happens to stop - a quantified precondition that a single witness cannot instantiate. */
void h_match_case(void)
{
	char s[8], r[5];
	int icase = nondet_bool(), i, ls = nondet_int(), lr = nondet_int();
	__CPROVER_assume(0 <= ls && ls <= 7 && 0 <= lr && lr <= 4);
	for (i = 0; i < 8; i++) {
		s[i] = nondet_char();
		__CPROVER_assume((i < ls) == (s[i] != 0) || i > ls);
	}
	for (i = 0; i < 5; i++) {
		r[i] = nondet_char();
		__CPROVER_assume((i < lr) == (r[i] != 0) || i > lr);
	}
	s[ls] = 0;
	r[lr] = 0;
	int ret = match_case(s, r, icase);
	int eq = lr <= ls;
	for (i = 0; i < 4; i++)
		if (i < lr && i < ls && (icase ? verif_tolower((unsigned char) s[i]) != verif_tolower((unsigned char) r[i]) : s[i] != r[i]))
			eq = 0;
	H_ASSERT((ret == 0) == eq, "match_case: 0 iff the literal fits and every byte equals the line byte (ASCII case folded when icase)");
#ifdef CANARY
	__CPROVER_assert(0, "canary");
#endif
}
