/* proof unit for vc_execute of /repo/vi.c (@r).
 * MECHANICAL EXTRACTION (redone on every run by run.py, unit key "extract"): vi.c's preprocessor
 * lines, the declaration line of vi_arg1/vi_arg2 and the verbatim text of vc_execute; everything
 * else of vi.c is dropped.  Callees are declared here and stubbed in vixq.spec.h. */
#include "pre.h"
static int vi_read(void);
#include EXTRACT_FILE
#define STRLEN_HOOK
static long strlen_hook(const char *s);
#include "libc.spec.h"
#include "vixq.spec.h"
