/* lbuf_indents: the offset of the first non-blank character of a line (^ I and the cursor after line-wise edits) (C07, C08) */
int xic;
struct rstr;
struct rstr *rstr_make(char *re, int flg) { return 0; }
void rstr_free(struct rstr *rs) { }
int rstr_find(struct rstr *rs, char *s, int n, int *grps, int flg) { return -1; }
int uc_off(char *s, int off) { return nondet_int(); }
char *uc_prev(char *beg, char *s) { return s; }
int uc_slen(char *s) { return nondet_int(); }
int lbuf_len(struct lbuf *lb) { return nondet_int(); }
int uc_kind(char *s) { return nondet_int(); }
int uc_code(char *s) { return nondet_int(); }
char *uc_chr(char *s, int off) { return s; }
/* the line is abstract: NI.n characters (one byte stands for one character); the stub answers "blank?" for the character under the scan, any answer, and records the run */
struct ghost_ni_in { int n, has; } NI;
struct ghost_ni { int pos, blanks, stop, bad; } NV;
static char g_niline[2];
char *lbuf_get(struct lbuf *lb, int pos) { return NI.has ? g_niline : (char *) 0; }
int uc_isspace(char *s)
{
	if (s != g_niline || NV.stop || NV.pos != NV.blanks)
		NV.bad = 1;
	if (NV.pos < NI.n && nondet_bool()) {
		NV.blanks++;
		return 1;
	}
	NV.stop = 1;	/* a non-blank character or the terminator */
	return 0;
}
char *uc_next(char *s) { NV.pos++; return s; }
int lbuf_indents_frame_contract(struct lbuf *lb, int r)
__CPROVER_assigns(NV)
;
#pragma CPROVER check push
#pragma CPROVER check disable "signed-overflow"
int inv_indents(int o) { return !NV.bad && !NV.stop && 0 <= o && o <= NI.n && o == NV.blanks && NV.pos == o; }
#pragma CPROVER check pop
void h_lbuf_indents(void)
{
	GHOST_INIT();
	NI.n = nondet_int(); NI.has = nondet_bool();
	__CPROVER_assume(0 <= NI.n && NI.n <= 0x1000000);
	NV.pos = NV.blanks = NV.stop = NV.bad = 0;
	int r = lbuf_indents((struct lbuf *) 0, nondet_int());
	if (!NI.has)
		H_ASSERT(r == 0, "lbuf_indents: no such line - offset 0");
	else
		H_ASSERT(!NV.bad && NV.stop && r == NV.blanks, "lbuf_indents: the number of blank characters before the first non-blank one (the characters are looked at in order, none skipped)");
#ifdef CANARY
	__CPROVER_assert(0, "canary");
#endif
}
