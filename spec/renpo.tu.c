/* proof unit for the column <-> offset conversions of /repo/ren.c (ren_pos, ren_off, ren_next over pos_next / pos_prev).
 * MECHANICAL EXTRACTION (redone on every run by run.py, unit key "extract"): ren.c's preprocessor
 * lines and the verbatim text of pos_next, pos_prev, ren_pos, ren_off, ren_next; everything else of
 * ren.c is dropped (ren_position, the layout itself, is units ren.ren_position / ren.ren_position_reorder_bounded
 * and enters here as a stub handing back an arbitrary layout). */
#include "pre.h"
#include EXTRACT_FILE
#include "libc.spec.h"
#include "renpo.spec.h"
