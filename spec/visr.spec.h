/* vi_search: / ? n N (C13): the typed pattern (or, when it is empty, the previous one) and the
 * direction are remembered, the search runs count times in that direction (N: the opposite one),
 * and when nothing is found the cursor stays where it was */
static int verif_snprintf(char *s, unsigned long n) { if (n) s[0] = 0; return 0; }
int xrow, xoff, xkmap;
static struct lbuf { int d; } g_srlb;
struct lbuf *ex_lbuf(void) { return &g_srlb; }
#ifndef SR_MAXCNT
#define SR_MAXCNT 3
#endif
struct ghost_sr_in { int has_kw, re_null, re_empty, nlines, kwd_fail, kwd_dir, fail_at; int fr[SR_MAXCNT + 1], fo[SR_MAXCNT + 1], flen[SR_MAXCNT + 1]; char rest0; int atoi_v; } SI;	/* constants */
struct ghost_sr {
	int kwdset_calls, kwdset_dir; char *kwdset_pat;
	int putln_calls, put_calls;
	int calls, bad; int in_r, in_o;	/* lbuf_search: number of calls, the position the next call must start from */
} SV;
static char g_kwtext[2], g_sbtext[4], g_retext[2], g_kwd[2], g_hist[2];
static char *vi_prompt(char *msg, int *kmap, char *hist) { return SI.has_kw ? g_kwtext : (char *) 0; }
static char *reg_getln(int h) { return g_hist; }
static void reg_putln(int h, char *s) { if (h != '/' || s != g_retext) SV.bad = 1; SV.putln_calls++; }
void reg_put(int c, char *s, int ln) { if (c != '/' || s != g_retext || ln != 0) SV.bad = 1; SV.put_calls++; }
static struct sbuf { int d; } g_srsb;
struct sbuf *sbuf_make(void) { return &g_srsb; }
void sbuf_chr(struct sbuf *sb, int c) { }
void sbuf_str(struct sbuf *sb, char *s) { }
char *sbuf_buf(struct sbuf *sb) { return g_sbtext; }
void sbuf_free(struct sbuf *sb) { }
void free(void *p) { }
/* re_read (unit rset.re_read_bounded): the pattern between the delimiters, the source left behind it */
char *re_read(char **src)
{
	if (SI.re_null)
		return 0;
	*src = g_sbtext + 2;	/* what follows the closing delimiter: at most one byte here */
	g_retext[0] = SI.re_empty ? 0 : 'p';
	g_retext[1] = 0;
	return g_retext;
}
void ex_kwdset(char *kwd, int dir) { SV.kwdset_calls++; SV.kwdset_pat = kwd; SV.kwdset_dir = dir; }
int ex_kwd(char **kwd, int *dir)
{
	if (SI.kwd_fail)
		return 1;
	*kwd = g_kwd;
	*dir = SI.kwd_dir;
	return 0;
}
int atoi(const char *s) { return SI.atoi_v; }
int lbuf_len(struct lbuf *lb) { return SI.nlines; }
int g_want_dir, g_skip;
int lbuf_search(struct lbuf *lb, char *kw, int dir, int *r, int *o, int *len)
{
	if (kw != g_kwd || dir != g_want_dir || *r != SV.in_r || *o != SV.in_o || SV.calls >= SR_MAXCNT)
		SV.bad = 1;
	int k = SV.calls < SR_MAXCNT ? SV.calls : SR_MAXCNT;
	SV.calls++;
	if (SV.calls == SI.fail_at)
		return 1;
	*r = SI.fr[k]; *o = SI.fo[k]; *len = SI.flen[k];
	SV.in_r = *r;
	SV.in_o = *o + (g_skip ? *len : 0);	/* a typed forward search (/) moves past the match before its next round */
	return 0;
}
void h_vi_search(void)
{
	int cmd = nondet_int(), cnt = nondet_int(), row = nondet_int(), off = nondet_int(), i;
	GHOST_INIT();
	__CPROVER_assume(cmd == '/' || cmd == '?' || cmd == 'n' || cmd == 'N');
	__CPROVER_assume(1 <= cnt && cnt <= SR_MAXCNT);
	SI.has_kw = nondet_bool(); SI.re_null = nondet_bool(); SI.re_empty = nondet_bool(); SI.nlines = nondet_int(); SI.kwd_fail = nondet_bool();
	SI.kwd_dir = nondet_bool() ? 1 : -1; SI.fail_at = nondet_int(); SI.rest0 = nondet_char(); SI.atoi_v = nondet_int();
	__CPROVER_assume(0 <= SI.nlines && SI.nlines <= 0x1000000 && 0 <= SI.fail_at && SI.fail_at <= SR_MAXCNT + 1 && -0x1000000 <= SI.atoi_v && SI.atoi_v <= 0x1000000);
	for (i = 0; i <= SR_MAXCNT; i++) {
		SI.fr[i] = nondet_int(); SI.fo[i] = nondet_int(); SI.flen[i] = nondet_int();
		__CPROVER_assume(0 <= SI.fr[i] && SI.fr[i] <= 0x1000000 && 0 <= SI.fo[i] && SI.fo[i] <= 0x1000000 && 0 <= SI.flen[i] && SI.flen[i] <= 0x1000000);
	}
	__CPROVER_assume(0 <= row && row <= 0x1000000 && 0 <= off && off <= 0x1000000);
	g_sbtext[0] = (char) cmd; g_sbtext[1] = 'p'; g_sbtext[2] = SI.rest0; g_sbtext[3] = 0;
	__CPROVER_assume(SI.rest0 == 0 || SI.rest0 == '1' || SI.rest0 == '-');
	vi_soset = nondet_bool(); vi_so = nondet_int();
	__CPROVER_assume(-0x1000000 <= vi_so && vi_so <= 0x1000000);
	int soset0 = vi_soset, so0 = vi_so;
	SV.kwdset_calls = SV.putln_calls = SV.put_calls = SV.calls = SV.bad = 0; SV.kwdset_pat = 0; SV.in_r = row; SV.in_o = off;
	int typed = cmd == '/' || cmd == '?';
	g_want_dir = cmd == 'N' ? -SI.kwd_dir : SI.kwd_dir;
	g_skip = cmd == '/';
	int row0 = row, off0 = off;
	int ret = vi_search(cmd, cnt, &row, &off);
	if (typed && !SI.has_kw) {
		H_ASSERT(ret == 1 && SV.kwdset_calls == 0 && SV.calls == 0 && row == row0 && off == off0, "vi_search: an aborted prompt changes nothing");
		return;
	}
	if (typed && !SI.re_null) {
		H_ASSERT(SV.kwdset_calls == 1 && SV.kwdset_dir == (cmd == '/' ? +1 : -1), "vi_search: / and ? set the search direction, also when the pattern is empty");
		H_ASSERT(SV.kwdset_pat == (SI.re_empty ? (char *) 0 : g_retext), "vi_search: a typed pattern becomes the search pattern, an empty one keeps the previous pattern");
		H_ASSERT(SV.putln_calls == (SI.re_empty ? 0 : 1) && SV.put_calls == (SI.re_empty ? 0 : 1), "vi_search: a typed pattern goes into the search history and register /");
	} else
		H_ASSERT(SV.kwdset_calls == 0 && vi_soset == soset0 && vi_so == so0, "vi_search: n and N use the remembered pattern, direction and line offset");
	if (SI.nlines == 0 || SI.kwd_fail) {
		H_ASSERT(ret == 1 && SV.calls == 0 && row == row0 && off == off0, "vi_search: an empty buffer or no remembered pattern: nothing found, cursor in place");
		return;
	}
	H_ASSERT(!SV.bad, "vi_search: every round searches the remembered pattern in the remembered direction (N: the opposite) from where the previous round ended");
	int rounds = (SI.fail_at >= 1 && SI.fail_at <= cnt) ? SI.fail_at : cnt;
	H_ASSERT(SV.calls == rounds, "vi_search: count rounds, stopping at the first round that finds nothing");
	if (SI.fail_at >= 1 && SI.fail_at <= cnt)
		H_ASSERT(ret == 1 && row == row0 && off == off0, "vi_search: when nothing is found the cursor stays where it was");
	else if (!vi_soset)
		H_ASSERT(ret == 0 && row == SI.fr[cnt - 1] && off == SI.fo[cnt - 1], "vi_search: the cursor goes to the match of the last round");
	else if (SI.fr[cnt - 1] + vi_so >= 0 && SI.fr[cnt - 1] + vi_so < SI.nlines)
		H_ASSERT(ret == 0 && row == SI.fr[cnt - 1] + vi_so && off == -1, "vi_search: a line offset after the pattern moves line-wise by that many lines from the match");
	else
		H_ASSERT(ret == 1, "vi_search: a line offset that leaves the buffer fails");
#ifdef CANARY
	__CPROVER_assert(0, "canary");
#endif
}
