/* proof unit for vc_motion of /repo/vi.c (operator + motion -> region).
 * MECHANICAL EXTRACTION (redone on every run by run.py, unit key "extract"): vi.c's preprocessor
 * lines, the declaration line of vi_arg1/vi_arg2 and the verbatim text of swap() and vc_motion();
 * everything else of vi.c is dropped.  What vc_motion calls is declared here and stubbed in vimo.spec.h. */
#include "pre.h"
static int vi_prefix(void);
static int vi_motionln(int *row, int cmd);
static int vi_motion(int *row, int *off);
static int vi_read(void);
static int vi_yank(int r1, int o1, int r2, int o2, int lnmode);
static int vi_delete(int r1, int o1, int r2, int o2, int lnmode);
static int vi_change(int r1, int o1, int r2, int o2, int lnmode);
static int vi_case(int r1, int o1, int r2, int o2, int lnmode, int cmd);
static int vi_pipe(int r1, int r2);
static int vi_shift(int r1, int r2, int dir);
#include EXTRACT_FILE
#define NO_STUB_STRCHR
#include "libc.spec.h"
#include "vimo.spec.h"
