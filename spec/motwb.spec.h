/* lbuf_wordbeg: from the end of the current word over the following blanks to the next word,
 * stopping at an empty line (w b W B) (C07) */
int xic;
struct rstr;
struct rstr *rstr_make(char *re, int flg) { return 0; }
void rstr_free(struct rstr *rs) { }
int rstr_find(struct rstr *rs, char *s, int n, int *grps, int flg) { return -1; }
int uc_off(char *s, int off) { return nondet_int(); }
char *uc_next(char *s) { return s; }
char *uc_prev(char *beg, char *s) { return s; }
int uc_slen(char *s) { return nondet_int(); }
int lbuf_len(struct lbuf *lb) { return nondet_int(); }
int uc_kind(char *s) { int k = nondet_int(); __CPROVER_assume(0 <= k && k <= 3); return k; }

/* characters of the buffer numbered 0..BI.N-1 in reading order (see motwl.spec.h); arbitrary text:
 * the stubs answer "blank?" / "newline?" for the character under the scan, consistently per
 * character, and record the answers along the scan path */
struct ghost_wb_in { int N, p0, dir; } BI;	/* constants */
struct ghost_wb {
	int pos;
	int wl_done, p1;	/* position after lbuf_wordlast */
	int c_pos, c_space, c_nl;	/* the character examined last and the answers given for it */
	int exam;		/* blanks examined so far on the path p1+dir, p1+2dir, ... */
	int nl;			/* newlines among p1 and those blanks */
	int stop;		/* the character after the blanks was examined: not a blank */
	int at_end, bad;
} WB;
static char g_wbtext[2];
char *lbuf_get(struct lbuf *lb, int pos) { return g_wbtext; }
char *uc_chr(char *s, int off) { return g_wbtext; }
static void wb_examine(void)
{
	if (WB.c_pos == WB.pos)
		return;		/* the same character again: the same answers */
	WB.c_pos = WB.pos;
	WB.c_nl = nondet_bool();
	WB.c_space = WB.c_nl ? 1 : nondet_bool();
	if (!WB.wl_done) {
		WB.bad = 1;
	} else if (WB.pos == WB.p1 && WB.exam == 0 && !WB.stop) {
		WB.nl += WB.c_nl;	/* the character the word scan ended on */
	} else if (WB.pos == WB.p1 + BI.dir * (WB.exam + 1) && !WB.stop) {
		if (WB.c_space) {
			WB.exam++;
			WB.nl += WB.c_nl;
		} else
			WB.stop = 1;
	} else
		WB.bad = 1;	/* a character off the scan path */
}
int uc_isspace(char *s)
{
	wb_examine();
	return WB.c_space;
}
int uc_code(char *s)
{
	wb_examine();
	return WB.c_nl ? '\n' : WB.c_space ? ' ' : 'x';
}
/* lbuf_wordlast as proved in unit mot.lbuf_wordlast: moves some way in the scan direction, never off the buffer */
int lbuf_wordlast_lin_contract(struct lbuf *lb, int kind, int dir, int *row, int *off)
__CPROVER_requires(row != 0 && off != 0 && dir == BI.dir && !WB.wl_done && 0 <= WB.pos && WB.pos < BI.N)
__CPROVER_assigns(*row, *off, WB.pos, WB.wl_done, WB.p1)
__CPROVER_ensures(WB.wl_done == 1 && WB.p1 == WB.pos && 0 <= WB.pos && WB.pos < BI.N &&
	(dir > 0 ? WB.pos >= __CPROVER_old(WB.pos) : WB.pos <= __CPROVER_old(WB.pos)))
;
int lbuf_next_wb_contract(struct lbuf *lb, int dir, int *r, int *o)
__CPROVER_requires(r != 0 && o != 0 && (dir == 1 || dir == -1) && 0 <= WB.pos && WB.pos < BI.N)
__CPROVER_assigns(*r, *o, WB.pos, WB.at_end)
__CPROVER_ensures((0 <= __CPROVER_old(WB.pos) + dir && __CPROVER_old(WB.pos) + dir < BI.N) ?
	(__CPROVER_return_value == 0 && WB.pos == __CPROVER_old(WB.pos) + dir && WB.at_end == __CPROVER_old(WB.at_end)) :
	(__CPROVER_return_value != 0 && WB.pos == __CPROVER_old(WB.pos) && WB.at_end == 1))
;
int lbuf_wordbeg_frame_contract(struct lbuf *lb, int big, int dir, int *row, int *off)
__CPROVER_requires(row != 0 && off != 0)
__CPROVER_assigns(*row, *off, WB)
;
#pragma CPROVER check push
#pragma CPROVER check disable "signed-overflow"
int inv_wordbeg(int nl)
{
	return WB.wl_done && !WB.bad && !WB.stop && !WB.at_end && 0 <= WB.pos && WB.pos < BI.N && 0 <= WB.p1 && WB.p1 < BI.N &&
		0 <= WB.exam && WB.exam <= BI.N && WB.pos == WB.p1 + BI.dir * (WB.exam + 1) &&
		nl == WB.nl && 0 <= nl && nl <= 1 && (WB.c_pos == WB.pos - BI.dir || WB.c_pos == WB.p1);
}
int dec_wordbeg(void)
{
	return BI.N - WB.exam;
}
#pragma CPROVER check pop
void h_lbuf_wordbeg(void)
{
	int row = nondet_int(), off = nondet_int(), big = nondet_bool();
	GHOST_INIT();
	BI.N = nondet_int(); BI.p0 = nondet_int(); BI.dir = nondet_bool() ? 1 : -1;
	__CPROVER_assume(1 <= BI.N && BI.N <= 0x1000000 && 0 <= BI.p0 && BI.p0 < BI.N);
	WB.pos = BI.p0; WB.wl_done = 0; WB.p1 = -1; WB.c_pos = -1; WB.c_space = WB.c_nl = 0; WB.exam = 0; WB.nl = 0; WB.stop = 0; WB.at_end = 0; WB.bad = 0;
	int ret = lbuf_wordbeg((struct lbuf *) 0, big, BI.dir, &row, &off);
	H_ASSERT(!WB.bad && WB.wl_done, "lbuf_wordbeg: the current word is left first, then only characters on the scan path are examined");
	if (ret) {
		H_ASSERT(WB.at_end, "lbuf_wordbeg: the motion fails only at the end of the buffer");
	} else if (WB.nl >= 2) {
		H_ASSERT(WB.nl == 2 && WB.c_nl && WB.pos == WB.c_pos && WB.pos == WB.p1 + BI.dir * WB.exam, "lbuf_wordbeg: an empty line (second newline in a row of blanks) stops the motion there");
	} else {
		H_ASSERT(WB.stop && WB.pos == WB.p1 + BI.dir * (WB.exam + 1), "lbuf_wordbeg: the cursor lands on the first character after the word that is not a blank");
	}
#ifdef CANARY
	__CPROVER_assert(0, "canary");
#endif
}
