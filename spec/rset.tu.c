/* proof units for /repo/rset.c - the real file, included verbatim */
#include "pre.h"
#include "rset.c"
#define NO_STUB_MEMCPY
#define NO_STUB_MEMMOVE
#define NO_STUB_STRLEN
#define NO_STUB_STRCHR
#include "libc.spec.h"
#include "rset.spec.h"
