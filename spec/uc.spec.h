/* contracts and full-domain harnesses for /repo/uc.c (C16, C17 tables, C18 shaping) */

/* RFC 3629 by the book: length from the lead byte, 0 if the byte cannot start a sequence */
#define ULEN(b)	(((b) & 0x80) == 0x00 ? 1 : ((b) & 0xe0) == 0xc0 ? 2 : \
		 ((b) & 0xf0) == 0xe0 ? 3 : ((b) & 0xf8) == 0xf0 ? 4 : 0)
#define ISCONT(b)	(((b) & 0xc0) == 0x80)
/* code point length by the book */
#define CLEN(c)	((c) < 0x80 ? 1 : (c) < 0x800 ? 2 : (c) < 0x10000 ? 3 : 4)

/* ---- uc.codec: encode/decode/length round trip over EVERY scalar value U+0001..U+10FFFF ---- */
void h_uc_codec(void)
{
	char buf[8];
	int c = nondet_int();
	int k;
	__CPROVER_assume(c >= 1 && c <= 0x10ffff);
	for (k = 0; k < 8; k++)
		buf[k] = nondet_char();
	uc_cput(buf, c);
	int l = CLEN(c);
	/* well-formed sequence of the RFC length, NUL after it */
	H_ASSERT(ULEN((unsigned char) buf[0]) == l, "uc_cput: lead byte announces the RFC length of the code point");
	H_ASSERT(l < 2 || ISCONT((unsigned char) buf[1]), "uc_cput: byte 2 is a continuation byte");
	H_ASSERT(l < 3 || ISCONT((unsigned char) buf[2]), "uc_cput: byte 3 is a continuation byte");
	H_ASSERT(l < 4 || ISCONT((unsigned char) buf[3]), "uc_cput: byte 4 is a continuation byte");
	H_ASSERT(buf[l] == 0, "uc_cput: NUL terminator follows the sequence");
	/* decoding and length agree with the code point */
	H_ASSERT(uc_code(buf) == c, "uc_code(uc_cput(c)) == c for every scalar value");
	H_ASSERT(uc_len(buf) == l, "uc_len(uc_cput(c)) is the RFC length");
	H_ASSERT(uc_end(buf) == buf + l - 1, "uc_end agrees with uc_len on an encoded character");
	H_ASSERT(uc_next(buf) == buf + l, "uc_next steps over exactly one encoded character");
	H_ASSERT(uc_beg(buf, buf + l - 1) == buf, "uc_beg from the last byte finds the lead byte");
	H_ASSERT(uc_prev(buf, buf + l) == buf, "uc_prev(uc_next(p)) == p");
#ifdef CANARY
	__CPROVER_assert(0, "canary");
#endif
}

/* ---- uc.window: every well-formed sequence followed by any non-continuation byte ---- */
void h_uc_window(void)
{
	unsigned char w[12];	/* 3 bytes of left context, the character, its successor, NUL guard */
	int k;
	for (k = 0; k < 12; k++)
		w[k] = nondet_uchar();
	w[11] = 0;
	char *p = (char *) w + 3;
	int l = ULEN(w[3]);
	__CPROVER_assume(w[3] != 0 && l >= 1);
	__CPROVER_assume(l < 2 || ISCONT(w[4]));
	__CPROVER_assume(l < 3 || ISCONT(w[5]));
	__CPROVER_assume(l < 4 || ISCONT(w[6]));
	__CPROVER_assume(!ISCONT(w[3 + l]));	/* what follows starts a character or is the NUL */
	H_ASSERT(uc_len(p) == l, "uc_len: length from the lead byte is the RFC length");
	H_ASSERT(uc_end(p) == p + l - 1, "uc_end (scanning continuation bytes) agrees with uc_len (lead byte)");
	H_ASSERT(uc_next(p) == p + l, "uc_next: start of the following character");
	H_ASSERT(uc_prev((char *) w, p + l) == p, "uc_prev undoes uc_next");
	int j = nondet_int();
	__CPROVER_assume(0 <= j && j < l);
	H_ASSERT(uc_beg((char *) w, p + j) == p, "uc_beg: from any byte of the character to its lead byte");
	/* decoding by the book */
	int c = l == 1 ? w[3] :
		l == 2 ? ((w[3] & 0x1f) << 6) | (w[4] & 0x3f) :
		l == 3 ? ((w[3] & 0x0f) << 12) | ((w[4] & 0x3f) << 6) | (w[5] & 0x3f) :
		((w[3] & 0x07) << 18) | ((w[4] & 0x3f) << 12) | ((w[5] & 0x3f) << 6) | (w[6] & 0x3f);
	H_ASSERT(uc_code(p) == c, "uc_code: decodes the sequence by the RFC bit layout");
	/* re-encoding the decoded value gives the same bytes when the sequence is the shortest form */
	if (CLEN(c) == l && c > 0) {
		char out[8];
		uc_cput(out, c);
		H_ASSERT((unsigned char) out[0] == w[3] && (l < 2 || (unsigned char) out[1] == w[4]) &&
			(l < 3 || (unsigned char) out[2] == w[5]) && (l < 4 || (unsigned char) out[3] == w[6]),
			"uc_cput(uc_code(p)) reproduces the bytes of a shortest-form sequence");
	}
	/* the NUL and the end of string */
	H_ASSERT(uc_len((char *) w + 11) == 0 && uc_next((char *) w + 11) == (char *) w + 11,
		"uc_len/uc_next at the terminator: length 0, no step");
#ifdef CANARY
	__CPROVER_assert(0, "canary");
#endif
}

/* ---- uc.tables: the width / bell tables (C17: "the width class of every code point is the one its tables list") ---- */
/* membership by linear scan: the reference the bisection must agree with */
static int tab_has(int c, int tab[][2], int n)
{
	int i;
	for (i = 0; i < n; i++)
		if (c >= tab[i][0] && c <= tab[i][1])
			return 1;
	return 0;
}

/* sorted, well-formed, disjoint: what bisection needs (static fact about the real tables) */
static int tab_sorted(int tab[][2], int n)
{
	int i;
	for (i = 0; i < n; i++) {
		if (tab[i][0] > tab[i][1])
			return 0;
		if (i + 1 < n && tab[i][1] >= tab[i + 1][0])
			return 0;
	}
	return 1;
}

void h_uc_tables(void)
{
	int c = nondet_int();	/* every int, including negative and beyond U+10FFFF */
	H_ASSERT(tab_sorted(dwchars, LEN(dwchars)), "dwchars[] is sorted and its ranges are disjoint");
	H_ASSERT(tab_sorted(zwchars, LEN(zwchars)), "zwchars[] is sorted and its ranges are disjoint");
	H_ASSERT(tab_sorted(bchars, LEN(bchars)), "bchars[] is sorted and its ranges are disjoint");
	H_ASSERT(find(c, dwchars, LEN(dwchars)) == tab_has(c, dwchars, LEN(dwchars)), "find(): bisection over dwchars[] == membership in a listed range, for every code point");
	H_ASSERT(find(c, zwchars, LEN(zwchars)) == tab_has(c, zwchars, LEN(zwchars)), "find(): bisection over zwchars[] == membership in a listed range, for every code point");
	H_ASSERT(find(c, bchars, LEN(bchars)) == tab_has(c, bchars, LEN(bchars)), "find(): bisection over bchars[] == membership in a listed range, for every code point");
	H_ASSERT(!!uc_isdw(c) == tab_has(c, dwchars, LEN(dwchars)), "uc_isdw: double width iff listed in dwchars[]");
	H_ASSERT(!!uc_iszw(c) == tab_has(c, zwchars, LEN(zwchars)), "uc_iszw: zero width iff listed in zwchars[]");
#ifdef CANARY
	__CPROVER_assert(0, "canary");
#endif
}

/* ---- uc.wid: width class of every well-formed character ---- */
void h_uc_wid(void)
{
	unsigned char w[6];
	int k;
	for (k = 0; k < 5; k++)
		w[k] = nondet_uchar();
	w[5] = 0;
	int l = ULEN(w[0]);
	__CPROVER_assume(w[0] != 0 && l >= 1);
	__CPROVER_assume(l < 2 || ISCONT(w[1]));
	__CPROVER_assume(l < 3 || ISCONT(w[2]));
	__CPROVER_assume(l < 4 || ISCONT(w[3]));
	int c = l == 1 ? w[0] :
		l == 2 ? ((w[0] & 0x1f) << 6) | (w[1] & 0x3f) :
		l == 3 ? ((w[0] & 0x0f) << 12) | ((w[1] & 0x3f) << 6) | (w[2] & 0x3f) :
		((w[0] & 0x07) << 18) | ((w[1] & 0x3f) << 12) | ((w[2] & 0x3f) << 6) | (w[3] & 0x3f);
	int wid = uc_wid((char *) w);
	int zw = tab_has(c, zwchars, LEN(zwchars));
	int dw = tab_has(c, dwchars, LEN(dwchars));
	H_ASSERT(wid == (zw ? 0 : dw ? 2 : 1), "uc_wid: 0 for listed zero-width, 2 for listed double-width, else 1");
	int ascii_print = w[0] == ' ' || w[0] == '\t' || w[0] == '\n' || (w[0] >= 0x20 && w[0] < 0x7f);
	H_ASSERT(!!uc_isbell((char *) w) == (!ascii_print && (zw || tab_has(c, bchars, LEN(bchars)))),
		"uc_isbell: non-printable iff listed in zwchars[] or bchars[] (printable ASCII never)");
#ifdef CANARY
	__CPROVER_assert(0, "canary");
#endif
}

/* ---- uc.cshape: Arabic letter shaping over all (cur, prev, next) (C18) ---- */
static struct achar *achar_lin(int c)
{
	int i;
	for (i = 0; i < (int) LEN(achars); i++)
		if (achars[i].c == (unsigned) c)
			return &achars[i];
	return 0;
}

void h_uc_cshape(void)
{
	int cur = nondet_int(), prev = nondet_int(), next = nondet_int();
	int i;
	for (i = 0; i + 1 < (int) LEN(achars); i++)
		H_ASSERT(achars[i].c < achars[i + 1].c, "achars[] is strictly sorted by code point (bisection needs it)");
	struct achar *ac = achar_lin(cur), *ap = achar_lin(prev), *an = achar_lin(next);
	H_ASSERT(find_achar(cur) == ac, "find_achar: bisection == linear lookup, for every code point");
	int r = uc_cshape(cur, prev, next);
	if (!ac) {
		H_ASSERT(r == cur, "uc_cshape: a character that is not a shapeable letter is never altered");
	} else {
		/* joins with the previous letter iff that letter has an initial/medial form and this one a final/medial form */
		int jp = ap && (ap->i || ap->m) && (ac->f || ac->m);
		int jn = an && (ac->i || ac->m) && (an->f || an->m);
		unsigned want = jp && jn ? ac->m : jp ? ac->f : jn ? ac->i : ac->c;
		H_ASSERT(r == (int) (want ? want : (unsigned) cur), "uc_cshape: medial/final/initial/isolated form chosen by whether the neighbours join");
		H_ASSERT(r == cur || (unsigned) r == ac->c || (unsigned) r == ac->i || (unsigned) r == ac->m || (unsigned) r == ac->f,
			"uc_cshape: the result is a form of the same letter");
		H_ASSERT(r != 0, "uc_cshape: never yields 0");
	}
#ifdef CANARY
	__CPROVER_assert(0, "canary");
#endif
}

/* ================================================================== BOUNDED: string-level helpers (C16) */
/* every well-formed UTF-8 string of at most US_MAX bytes: uc_slen counts characters, uc_chr / uc_off
 * convert between character index and byte position (mutually inverse), uc_sub cuts on character
 * boundaries */
#ifndef US_MAX
#define US_MAX 5
#endif
void h_uc_strings_bounded(void)
{
	unsigned char s[US_MAX + 1];
	int start[US_MAX + 2];
	int i, L = nondet_int(), n = 0, need = 0;
	__CPROVER_assume(0 <= L && L <= US_MAX);
	for (i = 0; i < US_MAX; i++)
		s[i] = nondet_uchar();
	s[L] = 0;
	/* well-formed: every lead byte is followed by exactly its continuation bytes; no NUL inside */
	for (i = 0; i < US_MAX; i++) {
		if (i >= L)
			break;
		__CPROVER_assume(s[i] != 0);
		if (need) {
			__CPROVER_assume(ISCONT(s[i]));
			need--;
		} else {
			__CPROVER_assume(!ISCONT(s[i]) && ULEN(s[i]) >= 1);
			start[n++] = i;
			need = ULEN(s[i]) - 1;
		}
	}
	__CPROVER_assume(need == 0);
	start[n] = L;
	char *p = (char *) s;
	H_ASSERT(uc_slen(p) == n, "uc_slen: the number of characters");
	int k = nondet_int();
	__CPROVER_assume(0 <= k && k <= n);
	H_ASSERT(uc_chr(p, k) == p + start[k], "uc_chr: the position of character k (the terminator for k == length)");
	H_ASSERT(uc_off(p, start[k]) == k, "uc_off: the character index of a character's position (inverse of uc_chr)");
	int b = nondet_int(), e = nondet_int();
	__CPROVER_assume(0 <= b && b <= e && e <= n);
	char *sub = uc_sub(p, b, e);
	int len = start[e] - start[b];
	H_ASSERT(sub[len] == 0, "uc_sub: as long as the characters b..e-1");
	int j = nondet_int();
	__CPROVER_assume(0 <= j && j < US_MAX);
	if (j < len)
		H_ASSERT(sub[j] == (char) s[start[b] + j], "uc_sub: exactly the bytes of characters b..e-1 (cut on character boundaries)");
#ifdef CANARY
	__CPROVER_assert(0, "canary");
#endif
}

/* ---- uc.kind: character classes used by the word motions and ^W (C07, C08) ---- */
void h_uc_kind(void)
{
	char s[2];
	s[0] = nondet_char(); s[1] = 0;
	unsigned char c = (unsigned char) s[0];
	int blank = c == ' ' || c == '\t' || c == '\n' || c == '\v' || c == '\f' || c == '\r';
	int word = (c >= 'a' && c <= 'z') || (c >= 'A' && c <= 'Z') || (c >= '0' && c <= '9') || c == '_' || c > 0x7f;
	int k = uc_kind(s);
	H_ASSERT(k == (blank ? 0 : word ? 1 : 2), "uc_kind: 0 for blanks, 1 for letters, digits, underscore and every non-ASCII character, 2 for punctuation (the terminator counts as punctuation)");
	H_ASSERT(!!uc_isspace(s) == blank, "uc_isspace: exactly the ASCII blanks");
	H_ASSERT(!!uc_isprint(s) == (c > 0x7f || (c >= 0x20 && c < 0x7f)), "uc_isprint: printable ASCII and every non-ASCII lead byte");
#ifdef CANARY
	__CPROVER_assert(0, "canary");
#endif
}
