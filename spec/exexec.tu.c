/* proof unit for the length guard and tokenizer chain of ex_exec in /repo/ex.c.
 * MECHANICAL EXTRACTION (redone on every run by run.py, unit key "extract"): the generated file
 * holds ex.c's preprocessor lines and the verbatim text of ex_exec; everything else of ex.c is
 * dropped.  What ex_exec refers to is declared here: the tokenizers (contracts proved in the
 * ex.ex_*_bounded units), ex_idx, ex_show, and a two-entry stand-in for the command table
 * (the real table would pull in every command of the editor). */
#include "pre.h"
#include <string.h>
#include <stdlib.h>
#include "vi.h"
static void ex_show_stub(char *msg);
#define ex_show(m) ex_show_stub(m)
static char *ex_loc(char *src, char *loc);
static char *ex_cmd(char *src, char *cmd);
static char *ex_arg(char *src, char *dst, char *excmd);
static char *ex_txt(char *src, char **dst, char *excmd);
static int ex_idx(char *cmd);
static int ec_stub(char *loc, char *cmd, char *arg, char *txt);
static struct excmd {
	char *abbr;
	char *name;
	int (*ec)(char *loc, char *cmd, char *arg, char *txt);
} excmds[] = {
	{"s", "substitute", ec_stub},
	{"", "", ec_stub},
};
#include EXTRACT_FILE
#define NO_STUB_MEMCPY
#define NO_STUB_MEMMOVE
#define STRLEN_HOOK
static long strlen_hook(const char *s);
#include "libc.spec.h"
#include "exexec.spec.h"
