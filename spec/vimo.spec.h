/* vc_motion: "the affected region is exactly the span between the cursor and the motion target,
 * character-wise exclusive or inclusive or line-wise as the motion dictates" (C08) */
int xrow, xoff;
/* the motion: either a line motion (vi_motionln) or a character motion (vi_motion) with target (MI.tr, MI.to), or none / failing */
struct ghost_mo_in { int prefix, lnmv, chmv, tr, to; int eol_cur, eol_tgt; int ne_cur0; } MI;	/* constants */
struct ghost_mo { int calls, op, r1, o1, r2, o2, ln, extra, reads, bad; } MO;
static struct lbuf { int d; } g_molb;
static char g_moline[2];
struct lbuf *ex_lbuf(void) { return &g_molb; }
int g_morow0;	/* the cursor row on entry */
char *lbuf_get(struct lbuf *lb, int pos) { return pos < 0 ? (char *) 0 : pos == g_morow0 ? g_moline : g_moline + 1; }
/* ren_noeol (unit ren.ren_noeol): offsets on a real character are kept, anything beyond goes to the last real character */
static int eol_of(int row) { return row == g_morow0 ? MI.eol_cur : MI.eol_tgt; }
/* ren_noeol (unit ren.ren_noeol): an offset on a real character is kept, anything at or past the terminator goes to the last real character (0 on an empty line) */
static int noeol_spec(int eol, int o) { return o >= eol ? (eol > 0 ? eol - 1 : 0) : o; }
int ren_noeol(char *s, int o)
{
	return noeol_spec(s == g_moline ? MI.eol_cur : MI.eol_tgt, o);
}
int lbuf_eol(struct lbuf *lb, int row) { return eol_of(row); }
static int vi_prefix(void) { return MI.prefix; }
static int vi_motionln(int *row, int cmd)
{
	if (MI.lnmv) {
		if (MI.lnmv > 0)
			*row = MI.tr;
		return MI.lnmv;
	}
	return 0;
}
static int vi_motion(int *row, int *off)
{
	if (MI.chmv > 0) {
		*row = MI.tr;
		*off = MI.to;
	}
	return MI.chmv;
}
static int vi_read(void) { MO.reads++; return 0; }
static void mo_rec(int op, int r1, int o1, int r2, int o2, int ln, int extra)
{
	MO.calls++;
	MO.op = op; MO.r1 = r1; MO.o1 = o1; MO.r2 = r2; MO.o2 = o2; MO.ln = ln; MO.extra = extra;
}
static int vi_yank(int r1, int o1, int r2, int o2, int lnmode) { mo_rec('y', r1, o1, r2, o2, lnmode, 0); return 1; }
static int vi_delete(int r1, int o1, int r2, int o2, int lnmode) { mo_rec('d', r1, o1, r2, o2, lnmode, 0); return 1; }
static int vi_change(int r1, int o1, int r2, int o2, int lnmode) { mo_rec('c', r1, o1, r2, o2, lnmode, 0); return 1; }
static int vi_case(int r1, int o1, int r2, int o2, int lnmode, int cmd) { mo_rec('~', r1, o1, r2, o2, lnmode, cmd); return 1; }
static int vi_pipe(int r1, int r2) { mo_rec('!', r1, 0, r2, 0, 1, 0); return 1; }
static int vi_shift(int r1, int r2, int dir) { mo_rec('>', r1, 0, r2, 0, 1, dir); return 1; }

void h_vc_motion(void)
{
	int cmd = nondet_int();
	GHOST_INIT();
	__CPROVER_assume(cmd == 'y' || cmd == 'd' || cmd == 'c' || cmd == '~' || cmd == 'u' || cmd == 'U' || cmd == '>' || cmd == '<');
	xrow = nondet_int(); xoff = nondet_int();
	MI.prefix = nondet_int(); MI.lnmv = nondet_int(); MI.chmv = nondet_int(); MI.tr = nondet_int(); MI.to = nondet_int();
	MI.eol_cur = nondet_int(); MI.eol_tgt = nondet_int();
	/* the cursor is on a real character (ren_noeol is the identity there); the motion target likewise */
	__CPROVER_assume(0 <= xrow && xrow <= 0x1000000 && 0 <= MI.eol_cur && MI.eol_cur <= 0x1000000 && 0 <= xoff && xoff <= MI.eol_cur);
	__CPROVER_assume(0 <= MI.tr && MI.tr <= 0x1000000 && 0 <= MI.eol_tgt && MI.eol_tgt <= 0x1000000 && 0 <= MI.to && MI.to <= MI.eol_tgt);
	__CPROVER_assume(MI.tr != xrow || MI.eol_tgt == MI.eol_cur);
	__CPROVER_assume(-1 <= MI.lnmv && MI.lnmv <= 255 && -1 <= MI.chmv && MI.chmv <= 255);
	MO.calls = MO.reads = MO.bad = 0;
	g_morow0 = xrow;
	int r0 = xrow, o0 = noeol_spec(MI.eol_cur, xoff);	/* the cursor is first taken off the line terminator */
	int ret = vc_motion(cmd);
	if (MI.prefix < 0 || MI.lnmv < 0 || (MI.lnmv == 0 && MI.chmv <= 0)) {
		H_ASSERT(ret == 0 && MO.calls == 0, "vc_motion: a failing or missing motion runs no operator");
		return;
	}
	H_ASSERT(MO.calls == 1, "vc_motion: exactly one operator runs");
	H_ASSERT(MO.op == (cmd == 'u' || cmd == 'U' ? '~' : cmd == '<' ? '>' : cmd), "vc_motion: the operator typed");
	int lo_r = r0 < MI.tr ? r0 : MI.tr, hi_r = r0 < MI.tr ? MI.tr : r0;
	H_ASSERT(MO.r1 == lo_r && MO.r2 == hi_r, "vc_motion: the region runs from the upper to the lower of cursor line and target line");
	if (MI.lnmv > 0) {
		H_ASSERT(MO.ln == 1, "vc_motion: a line motion makes the region line-wise");
	} else if (MO.op != '>' ) {
		int mv = MI.chmv;
		int incl = mv == 'f' || mv == 'F' || mv == 't' || mv == 'T' || mv == 'e' || mv == 'E' || mv == '%';
		/* (row, offset) pairs in reading order */
		int cur_first = r0 < MI.tr || (r0 == MI.tr && o0 <= MI.to);
		int a_o = cur_first ? o0 : MI.to, b_o = cur_first ? MI.to : o0;
		int b_r = hi_r;
		int b_eol = b_r == r0 ? MI.eol_cur : MI.eol_tgt;
		int a_eol = lo_r == r0 ? MI.eol_cur : MI.eol_tgt;
		H_ASSERT(MO.ln == 0 && MO.o1 == noeol_spec(a_eol, a_o), "vc_motion: a character motion makes the region character-wise, starting at the earlier of cursor and target (taken off the line terminator)");
		H_ASSERT(MO.o2 == ((incl && b_o < b_eol) ? b_o + 1 : b_o), "vc_motion: the region ends before the later position (exclusive), or just after it for the inclusive motions f F t T e E % unless that is the end of the line");
	}
#ifdef CANARY
	__CPROVER_assert(0, "canary");
#endif
}
