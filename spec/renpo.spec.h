/* BOUNDED: cursor offset <-> screen column (C17, C07: j k | h l) */
/* lines of up to PO_MAX characters whose cells start at arbitrary distinct columns (any visual
 * order), every character at least one column wide; the last character is the newline */
#ifndef PO_MAX
#define PO_MAX 4
#endif
struct ghost_po_in { int n; int pos[PO_MAX + 1]; } POI;	/* constants: pos[i] = first column of character i, pos[n] = total width */
static char g_poline[PO_MAX + 1];
int uc_slen(char *s) { return POI.n; }
int *ren_position(char *s)
{
	int *p = malloc((PO_MAX + 1) * sizeof(p[0]));
	int i;
	for (i = 0; i <= PO_MAX; i++)
		p[i] = POI.pos[i];
	return p;
}
char *uc_chr(char *s, int off)
{
	__CPROVER_assert(0 <= off && off < POI.n, "uc_chr: an existing character");
	return g_poline + off;
}
int uc_code(char *s) { return (unsigned char) s[0]; }
void h_ren_posoff_bounded(void)
{
	int i, j;
	GHOST_INIT();
	POI.n = nondet_int();
	__CPROVER_assume(1 <= POI.n && POI.n <= PO_MAX);
	for (i = 0; i <= PO_MAX; i++) {
		POI.pos[i] = nondet_int();
		__CPROVER_assume(0 <= POI.pos[i] && POI.pos[i] <= 64);
		for (j = 0; j < i; j++)
			__CPROVER_assume(i >= POI.n || POI.pos[i] != POI.pos[j]);
	}
	for (i = 0; i < PO_MAX; i++)
		g_poline[i] = i == POI.n - 1 ? '\n' : 'x';
	g_poline[PO_MAX] = 0;
	int off = nondet_int(), col = nondet_int();
	__CPROVER_assume(0 <= off && off < POI.n && 0 <= col && col <= 70);
	/* offset -> column -> offset */
	int c = ren_pos(g_poline, off);
	H_ASSERT(c == POI.pos[off], "ren_pos: the column of a character is where its cell starts");
	H_ASSERT(ren_off(g_poline, c) == off, "ren_off(ren_pos(off)) == off: the column of a character leads back to that character");
	/* column -> offset: the character whose cell starts at the nearest column at or before the given one */
	int o = ren_off(g_poline, col);
	int best = -1;
	for (i = 0; i < PO_MAX; i++)
		if (i < POI.n && POI.pos[i] <= col && (best < 0 || POI.pos[i] > POI.pos[best]))
			best = i;
	H_ASSERT(o == (best >= 0 ? best : 0), "ren_off: a column belongs to the character whose cell starts nearest at or before it (character 0 when there is none)");
	/* the neighbour in visual order */
	int dir = nondet_bool() ? 1 : -1;
	int nx = ren_next(g_poline, POI.pos[off], dir);
	int nb = -1;
	for (i = 0; i < PO_MAX; i++)
		if (i < POI.n && (dir > 0 ? POI.pos[i] > POI.pos[off] : POI.pos[i] < POI.pos[off]) &&
				(nb < 0 || (dir > 0 ? POI.pos[i] < POI.pos[nb] : POI.pos[i] > POI.pos[nb])))
			nb = i;
	if (nb < 0 || nb == POI.n - 1)
		H_ASSERT(nx == -1, "ren_next: no neighbour on that side (or only the newline): the step fails");
	else
		H_ASSERT(nx == POI.pos[nb], "ren_next: the column of the nearest character on that side in visual order");
#ifdef CANARY
	__CPROVER_assert(0, "canary");
#endif
}
