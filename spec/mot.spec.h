/* contracts, ghost state and harnesses for /repo/mot.c (C13 search, C07 motions) */

int xic;
#define MAXLN	0x7ffffff0L

/* ================================================================== lbuf_search (C13) */
/* The matcher is abstract: rstr_find answers "no match" or any span inside the rest of the line
 * (what units rstr.* / the regex units guarantee about offsets).  The stub checks HOW the search
 * calls it (scan points, flags, order of lines, enumeration of successive matches) and computes,
 * from the answers it gave, the match the statement says the search must land on. */
struct ghost_search_in {	/* inputs of the search: never assigned by it */
	int r0, o0, dir, nlines;
	long L;			/* length of the (arbitrary) line every row holds, newline included */
	long chrb;		/* byte offset of character o0+1 on the cursor line */
	int re_ok;
} SC;
struct ghost_search {
	int next_line;		/* the row lbuf_get must ask for next */
	int cur_line, calls_on_line;
	int e_set, e_line;	/* the match the statement designates */
	long e_B, e_E;
	int pend;		/* backward: the successive matches of this line must be enumerated further */
	char *pend_ptr;
	int bad;		/* the search deviated from the statement */
} SR;
char *g_sline;
static struct rstr { int d; } g_re;
int __CPROVER_uninterpreted_uoff(const char *s, int off);	/* character index of byte offset off in s */

int lbuf_len(struct lbuf *lb)
{
	return SC.nlines;
}
char *lbuf_get(struct lbuf *lb, int pos)
{
	if (pos < 0 || pos >= SC.nlines)
		return 0;
	__CPROVER_assert(pos == SR.next_line, "lbuf_search: lines are scanned one after the other from the cursor line, none skipped, no wrap-around");
	__CPROVER_assert(!SR.pend, "lbuf_search: the successive matches of a line are enumerated to the end of the line before it moves on");
	__CPROVER_assert(!SR.e_set, "lbuf_search: the scan stops at the nearest line that has a match");
	SR.cur_line = pos;
	SR.next_line = pos + SC.dir;
	SR.calls_on_line = 0;
	return g_sline;
}
struct rstr *rstr_make(char *re, int flg)
{
	return SC.re_ok ? &g_re : (struct rstr *) 0;
}
void rstr_free(struct rstr *rs)
{
	__CPROVER_assert(rs == &g_re, "rstr_free: the compiled pattern");
}
/* callee contract of uc_chr (uc units): the byte position of character `off` (cursor positions are inside the line) */
char *uc_chr(char *s, int off)
{
	__CPROVER_assert(s == g_sline && off == SC.o0 + 1, "lbuf_search: the forward scan of the cursor line starts after the cursor character");
	return s + SC.chrb;
}
int uc_off(char *s, int off)
{
	__CPROVER_assert(__CPROVER_same_object(s, g_sline) && off >= 0, "uc_off: a position inside the line");
	int r = __CPROVER_uninterpreted_uoff(s, off);
	__CPROVER_assume(r >= 0);
	return r;
}

int rstr_find(struct rstr *rs, char *p, int n, int *grps, int flg)
{
	__CPROVER_assert(rs == &g_re && n == 1 && grps != 0, "rstr_find: compiled pattern, one span asked for");
	__CPROVER_assert(__CPROVER_same_object(p, g_sline), "lbuf_search: the matcher is given a position of the current line");
	long off = __CPROVER_POINTER_OFFSET(p);
	__CPROVER_assert(0 <= off && off <= SC.L, "lbuf_search: the scan point is inside the line");
	__CPROVER_assert(off == 0 ? !(flg & RE_NOTBOL) : (flg & RE_NOTBOL) != 0, "lbuf_search: a scan that does not start at the line start says so (not-at-line-start flag)");
	if (SR.calls_on_line == 0)
		__CPROVER_assert(off == ((SC.dir > 0 && SR.cur_line == SC.r0) ? SC.chrb : 0),
			"lbuf_search: forward on the cursor line the scan starts after the cursor character, on every other line (and backward) at the line start");
	else
		__CPROVER_assert(SR.pend && p == SR.pend_ptr, "lbuf_search: successive matches are looked for directly after the previous match (one byte further after an empty match)");
	SR.pend = 0;
	SR.calls_on_line = SR.calls_on_line < 1000 ? SR.calls_on_line + 1 : 1000;
	if (nondet_bool())
		return -1;
	long so = nondet_long(), eo = nondet_long();
	__CPROVER_assume(0 <= so && so <= eo && eo <= SC.L - 1 - off && off <= SC.L - 1);
	grps[0] = (int) so;
	grps[1] = (int) eo;
	long B = off + so, E = off + eo;
	/* does this match count?  forward: always (the scan started after the cursor); backward on the
	 * cursor line: only if it begins before the cursor character */
	int counts = SC.dir > 0 || SR.cur_line != SC.r0 || __CPROVER_uninterpreted_uoff(g_sline, (int) B) < SC.o0;
	if (counts && (!SR.e_set || SR.e_line == SR.cur_line)) {
		if (SR.e_set && SC.dir > 0)
			SR.bad = 1;	/* forward: the first match is final */
		SR.e_set = 1;
		SR.e_line = SR.cur_line;
		SR.e_B = B;
		SR.e_E = E;
	}
	if (counts && SC.dir < 0) {
		long noff = off + (eo > so ? eo : eo + 1);
		if (noff <= SC.L && g_sline[noff] != 0 && g_sline[noff] != '\n') {
			SR.pend = 1;
			SR.pend_ptr = g_sline + noff;
		}
	}
	return 0;
}

int lbuf_search_contract(struct lbuf *lb, char *kw, int dir, int *r, int *o, int *len)
__CPROVER_requires(kw != 0 && (dir == 1 || dir == -1))
__CPROVER_requires(__CPROVER_is_fresh(r, sizeof(int)) && __CPROVER_is_fresh(o, sizeof(int)) && __CPROVER_is_fresh(len, sizeof(int)))
__CPROVER_requires(0 <= SC.nlines && SC.nlines <= 0x1000000 && *r == SC.r0 && *o == SC.o0 && dir == SC.dir)
/* the cursor is on a character of an existing line (vi_wfix, ren_noeol) */
__CPROVER_requires(0 <= SC.r0 && SC.r0 < SC.nlines && 0 <= SC.o0 && SC.o0 < 0x7ffffff0)
__CPROVER_requires(1 <= SC.L && SC.L <= MAXLN && 0 <= SC.chrb && SC.chrb <= SC.L)
__CPROVER_requires(SR.next_line == SC.r0 && !SR.e_set && !SR.pend && !SR.bad && SR.calls_on_line == 0)
__CPROVER_assigns(*r, *o, *len, SR)
__CPROVER_ensures(__CPROVER_return_value == 0 || __CPROVER_return_value == 1)
__CPROVER_ensures(!SR.bad && !SR.pend)
/* found: the cursor lands on the match the statement designates */
__CPROVER_ensures(SR.e_set ==> (__CPROVER_return_value == 0 && *r == SR.e_line &&
	*o == __CPROVER_uninterpreted_uoff(g_sline, (int) SR.e_B) &&
	*len == __CPROVER_uninterpreted_uoff(g_sline + SR.e_B, (int) (SR.e_E - SR.e_B))))
/* nothing found: the cursor stays, and every line up to the end of the buffer in that direction was looked at (no wrap) */
__CPROVER_ensures(!SR.e_set ==> (__CPROVER_return_value == 1 && *r == SC.r0 && *o == SC.o0))
__CPROVER_ensures((!SR.e_set && SC.re_ok) ==> SR.next_line == (SC.dir > 0 ? SC.nlines : -1))
;

#pragma CPROVER check push
#pragma CPROVER check disable "pointer"
#pragma CPROVER check disable "pointer-primitive"
#pragma CPROVER check disable "signed-overflow"
/* state of the outer loop (one line per iteration) */
_Bool inv_search_outer(int i, int found, int *r, int *o, int *len)
{
	if (SR.bad || SR.pend)
		return 0;
	if (i != SR.next_line || (found != 0) != (SR.e_set != 0))
		return 0;
	if (SR.next_line < -1 || SR.next_line > SC.nlines)
		return 0;
	if (SC.dir > 0 ? SR.next_line < SC.r0 : SR.next_line > SC.r0)
		return 0;	/* the scan only moves away from the cursor line */
	if (SR.e_set)
		return *r == SR.e_line && *o == __CPROVER_uninterpreted_uoff(g_sline, (int) SR.e_B) &&
			*len == __CPROVER_uninterpreted_uoff(g_sline + SR.e_B, (int) (SR.e_E - SR.e_B)) &&
			0 <= SR.e_B && SR.e_B <= SR.e_E && SR.e_E <= SC.L;
	return *r == SC.r0 && *o == SC.o0;
}
/* state of the inner loop (successive matches on one line) */
_Bool inv_search_inner(int i, int found, int off, char *s, int *r, int *o, int *len)
{
	if (SR.bad || s != g_sline || SR.cur_line != i || SR.next_line != i + SC.dir)
		return 0;
	if (off < 0 || off > SC.L || SR.calls_on_line < 0 || SR.calls_on_line > 1000)
		return 0;
	if ((found != 0) != (SR.e_set != 0))
		return 0;
	if (SR.calls_on_line == 0) {
		if (off != ((SC.dir > 0 && i == SC.r0) ? SC.chrb : 0) || SR.pend || SR.e_set)
			return 0;
	} else {
		if (!SR.pend || SR.pend_ptr != g_sline + off || SC.dir > 0)
			return 0;
	}
	if (SR.e_set)
		return SR.e_line == i && *r == SR.e_line && *o == __CPROVER_uninterpreted_uoff(g_sline, (int) SR.e_B) &&
			*len == __CPROVER_uninterpreted_uoff(g_sline + SR.e_B, (int) (SR.e_E - SR.e_B)) &&
			0 <= SR.e_B && SR.e_B <= SR.e_E && SR.e_E <= SC.L;
	return *r == SC.r0 && *o == SC.o0;
}
#pragma CPROVER check pop

void h_lbuf_search(void)
{
	struct lbuf *lb = 0;
	char kw[2];
	int dir, *r, *o, *len;
	GHOST_INIT();
	xic = nondet_bool();
	kw[1] = 0;
	SC.r0 = nondet_int(); SC.o0 = nondet_int(); SC.dir = nondet_int(); SC.nlines = nondet_int();
	SC.L = nondet_long(); SC.chrb = nondet_long();
	SR.next_line = SC.r0; SR.e_set = 0; SR.pend = 0; SR.bad = 0; SR.calls_on_line = 0; SR.cur_line = -1;
	SC.re_ok = nondet_bool();
	__CPROVER_assume(1 <= SC.L && SC.L <= MAXLN);
	g_sline = malloc(SC.L + 1);
	__CPROVER_assume(g_sline[SC.L - 1] == '\n' && g_sline[SC.L] == 0);
	lbuf_search(lb, kw, dir, r, o, len);
#ifdef CANARY
	__CPROVER_assert(0, "canary");
#endif
}
