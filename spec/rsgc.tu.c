/* proof unit relating re_groupcount() of /repo/rset.c to the bracket scanner brk_len() of /repo/regex.c.
 * MECHANICAL EXTRACTION (redone on every run by run.py, unit key "extract", two entries): the
 * preprocessor lines of both files and the verbatim text of the two functions; everything else is dropped. */
#include "pre.h"
#include EXTRACT_FILE
#define NO_STUB_STRLEN
#define NO_STUB_STRCHR
#include "libc.spec.h"
/* BOUNDED: for every pattern of at most GC_MAX bytes over the alphabet ( ) [ ] \ ^ a the group
 * count that rset_make uses to number the groups of a pattern set equals the number of '(' that
 * the regex parser takes for a group: not the second byte of a backslash pair, not inside a bracket
 * expression as delimited by the parser's own bracket scanner brk_len() */
#ifndef GC_MAX
#define GC_MAX 6
#endif
void h_groupcount_bounded(void)
{
	char p[GC_MAX + 1];
	int i, k, L = nondet_int();
	__CPROVER_assume(1 <= L && L <= GC_MAX);
	for (i = 0; i < GC_MAX; i++) {
		p[i] = nondet_char();
		__CPROVER_assume(p[i] == '(' || p[i] == ')' || p[i] == '[' || p[i] == ']' || p[i] == '\\' || p[i] == '^' || p[i] == 'a');
	}
	p[L] = 0;
	int groups = 0;
	i = 0;
	for (k = 0; k < GC_MAX; k++) {
		if (!p[i])
			break;
		if (p[i] == '\\' && p[i + 1])
			i += 2;
		else if (p[i] == '[') {
			int bl = brk_len(p + i);
			/* patterns of the grammar: a bracket expression is closed (an unterminated one at the very end of a
			 * pattern is taken for a bracket by the parser and for ordinary characters by re_groupcount) */
			__CPROVER_assume(bl >= 2 && p[i + bl - 1] == ']');
			i += bl;
		}
		else {
			if (p[i] == '(')
				groups++;
			i++;
		}
	}
	H_ASSERT(re_groupcount(p) == groups, "re_groupcount: counts exactly the '(' the parser takes for groups (escaped ones and those inside a bracket expression excepted)");
#ifdef CANARY
	__CPROVER_assert(0, "canary");
#endif
}
