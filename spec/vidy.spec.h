/* yank and delete over a region (C08): the register receives exactly the text of the region, and
 * delete replaces exactly the lines of the region by what is left of the first and last one.
 * Texts are identified by pointer; every callee that builds a text is a recording stub that hands
 * out a distinct token and remembers what the token stands for. */
int xrow, xoff;
static struct lbuf { int d; } g_dylb;
struct lbuf *ex_lbuf(void) { return &g_dylb; }
struct ghost_dy_in { int ybuf_ok; } DI;
/* tokens */
static char t_line1[2], t_line2[2], t_sub[4][2], t_cp[2], t_region[2], t_cat[2], t_dup[2][2];
struct sub_rec { char *src; int beg, end; };
struct ghost_dy {
	int r1, r2;			/* rows whose lines were asked for */
	struct sub_rec sub[4]; int nsub;	/* uc_sub calls in order */
	int cp_calls, cp_beg, cp_end;
	char *str[3]; int nstr;		/* sbuf_str calls in order */
	int put_calls, put_reg, put_ln; char *put_text;
	char *cat_a, *cat_b; int cat_calls;
	int edit_calls, edit_beg, edit_end; char *edit_text;
	int dup_calls; char dup_first[2];
	int frees_region;
	int bad;
} DY;
char *lbuf_get(struct lbuf *lb, int pos)
{
	if (pos == DY.r1)
		return t_line1;
	if (pos == DY.r2)
		return t_line2;
	DY.bad = 1;
	return t_line1;
}
char *uc_sub(char *s, int beg, int end)
{
	if (DY.nsub >= 4) {
		DY.bad = 1;
		return t_sub[0];
	}
	DY.sub[DY.nsub].src = s; DY.sub[DY.nsub].beg = beg; DY.sub[DY.nsub].end = end;
	return t_sub[DY.nsub++];
}
char *lbuf_cp(struct lbuf *lb, int beg, int end)
{
	DY.cp_calls++; DY.cp_beg = beg; DY.cp_end = end;
	return t_cp;
}
static struct sbuf { int d; } g_dysb;
struct sbuf *sbuf_make(void) { DY.nstr = 0; return &g_dysb; }
void sbuf_str(struct sbuf *sb, char *s)
{
	if (DY.nstr >= 3) {
		DY.bad = 1;
		return;
	}
	DY.str[DY.nstr++] = s;
}
char *sbuf_done(struct sbuf *sb) { return t_region; }
void reg_put(int c, char *s, int ln)
{
	DY.put_calls++; DY.put_reg = c; DY.put_text = s; DY.put_ln = ln;
}
char *uc_dup(char *s)
{
	int k = DY.dup_calls < 2 ? DY.dup_calls : 1;
	DY.dup_first[k] = s[0];
	DY.dup_calls++;
	return t_dup[k];
}
char *uc_cat(char *a, char *b)
{
	DY.cat_calls++; DY.cat_a = a; DY.cat_b = b;
	return t_cat;
}
void lbuf_edit(struct lbuf *lb, char *s, int beg, int end)
{
	DY.edit_calls++; DY.edit_text = s; DY.edit_beg = beg; DY.edit_end = end;
}
int g_indent;
int lbuf_indents(struct lbuf *lb, int r) { return g_indent; }
void free(void *p) { }
static void vi_drawfix(int r1, int r2, int n, int preview) { }

/* the text of the region, checked on the recorded construction: region_is(tok) */
static int region_ok(char *tok, int r1, int o1, int r2, int o2)
{
	if (r1 == r2)	/* inside one line: characters o1..o2-1 of it */
		return tok == t_sub[0] && DY.sub[0].src == t_line1 && DY.sub[0].beg == o1 && DY.sub[0].end == o2 && DY.cp_calls == 0;
	/* the rest of the first line from o1, the whole lines in between, the last line up to o2 - in this order */
	return tok == t_region && DY.nstr == 3 &&
		DY.str[0] == t_sub[0] && DY.sub[0].src == t_line1 && DY.sub[0].beg == o1 && DY.sub[0].end == -1 &&
		DY.str[1] == t_cp && DY.cp_calls == 1 && DY.cp_beg == r1 + 1 && DY.cp_end == r2 &&
		DY.str[2] == t_sub[1] && DY.sub[1].src == t_line2 && DY.sub[1].beg == 0 && DY.sub[1].end == o2;
}
#define DY_INIT() do { GHOST_INIT(); \
	r1 = nondet_int(); r2 = nondet_int(); o1 = nondet_int(); o2 = nondet_int(); lnmode = nondet_bool(); \
	__CPROVER_assume(0 <= r1 && r1 <= r2 && r2 <= 0x1000000 && 0 <= o1 && o1 <= 0x1000000 && 0 <= o2 && o2 <= 0x1000000); \
	DY.r1 = r1; DY.r2 = r2; DY.nsub = 0; DY.cp_calls = 0; DY.nstr = 0; DY.put_calls = 0; DY.cat_calls = 0; DY.edit_calls = 0; DY.dup_calls = 0; DY.bad = 0; \
	vi_ybuf = nondet_int(); xrow = nondet_int(); xoff = nondet_int(); g_indent = nondet_int(); } while (0)

void h_vi_yank(void)
{
	int r1, r2, o1, o2, lnmode;
	DY_INIT();
	int off0 = xoff;
	vi_yank(r1, o1, r2, o2, lnmode);
	H_ASSERT(!DY.bad && DY.put_calls == 1 && DY.put_reg == vi_ybuf && DY.put_ln == lnmode, "vi_yank: one text goes into the register named, with the region's line-wise flag");
	H_ASSERT(region_ok(DY.put_text, r1, lnmode ? 0 : o1, r2, lnmode ? -1 : o2), "vi_yank: the register receives exactly the text of the region (whole lines when line-wise)");
	H_ASSERT(DY.edit_calls == 0, "vi_yank: the buffer is not changed");
	H_ASSERT(xrow == r1 && xoff == (lnmode ? off0 : o1), "vi_yank: the cursor goes to the start of the region");
#ifdef CANARY
	__CPROVER_assert(0, "canary");
#endif
}
void h_vi_delete(void)
{
	int r1, r2, o1, o2, lnmode;
	DY_INIT();
	vi_delete(r1, o1, r2, o2, lnmode);
	H_ASSERT(!DY.bad && DY.put_calls == 1 && DY.put_reg == vi_ybuf && DY.put_ln == lnmode, "vi_delete: the deleted text goes into the register named, with the region's line-wise flag");
	H_ASSERT(region_ok(DY.put_text, r1, lnmode ? 0 : o1, r2, lnmode ? -1 : o2), "vi_delete: the register receives exactly the text that is deleted");
	H_ASSERT(DY.edit_calls == 1 && DY.edit_beg == r1 && DY.edit_end == r2 + 1, "vi_delete: exactly the lines of the region are replaced");
	if (lnmode) {
		H_ASSERT(DY.edit_text == 0, "vi_delete: a line-wise region is removed, nothing is put in its place");
		H_ASSERT(xrow == r1 && xoff == g_indent, "vi_delete: the cursor goes to the indentation of the line that follows");
	} else {
		/* what is left: the first line before o1 joined with the last line from o2 */
		int k = r1 == r2 ? 1 : 2;
		H_ASSERT(DY.edit_text == t_cat && DY.cat_calls == 1 &&
			DY.cat_a == t_sub[k] && DY.sub[k].src == t_line1 && DY.sub[k].beg == 0 && DY.sub[k].end == o1 &&
			DY.cat_b == t_sub[k + 1] && DY.sub[k + 1].src == (r1 == r2 ? t_line1 : t_line2) && DY.sub[k + 1].beg == o2 && DY.sub[k + 1].end == -1,
			"vi_delete: the region's lines are replaced by one line: the first line before the region joined with the last line after it");
		H_ASSERT(xrow == r1 && xoff == o1, "vi_delete: the cursor goes to the start of the region");
	}
#ifdef CANARY
	__CPROVER_assert(0, "canary");
#endif
}


/* ================================================================== vi_pipe: "!motion cmd" filters exactly the lines of the region (C08, C06) */
struct ghost_pp_in { int has_cmd, has_out; } PPI;
struct ghost_pp { int pipe_calls, pipe_oproc; char *pipe_cmd, *pipe_in; int putln; } PP;
static char t_cmd[2], t_out[2], t_hist[2];
static char *vi_prompt(char *msg, int *kmap, char *hist) { return PPI.has_cmd ? t_cmd : (char *) 0; }
static char *reg_getln(int h) { return t_hist; }
static void reg_putln(int h, char *s) { PP.putln++; }
char *cmd_pipe(char *cmd, char *ibuf, int oproc)
{
	PP.pipe_calls++; PP.pipe_cmd = cmd; PP.pipe_in = ibuf; PP.pipe_oproc = oproc;
	return PPI.has_out ? t_out : (char *) 0;
}
void h_vi_pipe(void)
{
	int r1 = nondet_int(), r2 = nondet_int();
	GHOST_INIT();
	__CPROVER_assume(0 <= r1 && r1 <= r2 && r2 <= 0x1000000);
	PPI.has_cmd = nondet_bool(); PPI.has_out = nondet_bool();
	DY.r1 = r1; DY.r2 = r2; DY.nsub = 0; DY.cp_calls = 0; DY.nstr = 0; DY.put_calls = 0; DY.cat_calls = 0; DY.edit_calls = 0; DY.dup_calls = 0; DY.bad = 0;
	PP.pipe_calls = PP.putln = 0;
	vi_pipe(r1, r2);
	if (!PPI.has_cmd) {
		H_ASSERT(PP.pipe_calls == 0 && DY.edit_calls == 0, "vi_pipe: an aborted prompt runs nothing and changes nothing");
		return;
	}
	H_ASSERT(DY.cp_calls == 1 && DY.cp_beg == r1 && DY.cp_end == r2 + 1, "vi_pipe: exactly the lines of the region are handed to the command");
	H_ASSERT(PP.pipe_calls == 1 && PP.pipe_cmd == t_cmd && PP.pipe_in == t_cp && PP.pipe_oproc == 1, "vi_pipe: the typed command runs once with those lines as its input, its output collected");
	if (PPI.has_out)
		H_ASSERT(DY.edit_calls == 1 && DY.edit_text == t_out && DY.edit_beg == r1 && DY.edit_end == r2 + 1, "vi_pipe: the command's output replaces exactly the lines of the region");
	else
		H_ASSERT(DY.edit_calls == 0, "vi_pipe: a command that could not be run leaves the buffer unchanged");
#ifdef CANARY
	__CPROVER_assert(0, "canary");
#endif
}


/* ================================================================== vi_change: "c motion" (C08) */
struct ghost_ch_in { int has_rep, in_row, in_off; } CHI;
struct ghost_ch { int input_calls; char *in_pref, *in_post; int indents_calls; char *indents_of; } CH;
static char t_rep[2], t_ind[2];
static char *vi_indents(char *ln) { CH.indents_calls++; CH.indents_of = ln; return t_ind; }
static char *vi_input(char *pref, char *post, int *row, int *off)
{
	CH.input_calls++; CH.in_pref = pref; CH.in_post = post;
	if (!CHI.has_rep)
		return 0;
	*row = CHI.in_row; *off = CHI.in_off;
	return t_rep;
}
void h_vi_change(void)
{
	int r1, r2, o1, o2, lnmode;
	DY_INIT();
	CHI.has_rep = nondet_bool(); CHI.in_row = nondet_int(); CHI.in_off = nondet_int();
	__CPROVER_assume(1 <= CHI.in_row && CHI.in_row <= 0x100000 && 0 <= CHI.in_off && CHI.in_off <= 0x100000);
	CH.input_calls = CH.indents_calls = 0;
	int ret = vi_change(r1, o1, r2, o2, lnmode);
	H_ASSERT(!DY.bad && DY.put_calls == 1 && DY.put_reg == vi_ybuf && DY.put_ln == lnmode && region_ok(DY.put_text, r1, lnmode ? 0 : o1, r2, lnmode ? -1 : o2),
		"vi_change: the text that is about to be replaced goes into the register named (whole lines when line-wise)");
	H_ASSERT(CH.input_calls == 1, "vi_change: insert mode is entered once");
	if (lnmode)
		H_ASSERT(CH.in_pref == t_ind && CH.indents_calls == 1 && CH.indents_of == t_line1 && CH.in_post == t_dup[0] && DY.dup_first[0] == '\n',
			"vi_change: a line-wise change types into an empty line that keeps the first line's indentation");
	else {
		int k = r1 == r2 ? 1 : 2;
		H_ASSERT(CH.in_pref == t_sub[k] && DY.sub[k].src == t_line1 && DY.sub[k].beg == 0 && DY.sub[k].end == o1 &&
			CH.in_post == t_sub[k + 1] && DY.sub[k + 1].src == (r1 == r2 ? t_line1 : t_line2) && DY.sub[k + 1].beg == o2 && DY.sub[k + 1].end == -1,
			"vi_change: a character-wise change types between the first line before the region and the last line after it");
	}
	if (!CHI.has_rep)
		H_ASSERT(ret == 0 && DY.edit_calls == 0, "vi_change: an aborted insert leaves the buffer unchanged");
	else {
		H_ASSERT(DY.edit_calls == 1 && DY.edit_text == t_rep && DY.edit_beg == r1 && DY.edit_end == r2 + 1, "vi_change: the typed text replaces exactly the lines of the region");
		H_ASSERT(xrow == r1 + CHI.in_row - 1 && xoff == CHI.in_off, "vi_change: the cursor ends where insert mode left it");
	}
#ifdef CANARY
	__CPROVER_assert(0, "canary");
#endif
}
