/* proof unit for the helpers of the insert-mode line editor of /repo/led.c: led_lastchar, led_lastword, led_readchar.
 * MECHANICAL EXTRACTION (redone on every run by run.py, unit key "extract"): led.c's preprocessor
 * lines, a prototype for every other static function (bodies dropped) and the verbatim text of the
 * three functions; everything else of led.c is dropped. */
#include "pre.h"
#include EXTRACT_FILE
#define NO_STUB_STRCHR
#define NO_STUB_STRLEN
#include "libc.spec.h"
#include "ledh.spec.h"
