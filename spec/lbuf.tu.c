/* proof units for /repo/lbuf.c - the real file, included verbatim */
#include "pre.h"
#include "lbuf.c"
#ifdef UNIT_LB_BOUNDED	/* bounded unit: CBMC's own models of the libc string functions */
#define NO_STUB_MEMCPY
#define NO_STUB_MEMMOVE
#define NO_STUB_STRLEN
#define NO_STUB_STRCHR
#endif
#define STRLEN_HOOK
#define MEMCPY_HOOK
#ifdef UNIT_LBUF_WR
#define MEMCPY_HAVOC_ALL
#endif
#include "libc.spec.h"
#include "lbuf.spec.h"
