/* proof units for /repo/lbuf.c - the real file, included verbatim */
#include "pre.h"
#include "lbuf.c"
#ifdef UNIT_LB_BOUNDED	/* bounded unit: CBMC's own models of the libc string functions */
#define NO_STUB_MEMCPY
#define NO_STUB_MEMMOVE
#define NO_STUB_STRLEN
#define NO_STUB_STRCHR
/* exact byte-loop copies (CBMC's built-in model loses pointer values when the length is symbolic) */
void *memcpy(void *d, const void *s, size_t n)
{
	size_t k_;
#ifdef UNIT_LOPT_TYPED	/* lbuf_opt's only memcpy copies hist_n whole history entries: copied entry by entry (byte copies of structs holding pointers are very expensive in CBMC) */
	__CPROVER_assert(n % sizeof(struct lopt) == 0, "memcpy (typed model): a whole number of history entries");
	for (k_ = 0; k_ < n / sizeof(struct lopt); k_++)
		((struct lopt *) d)[k_] = ((const struct lopt *) s)[k_];
	return d;
#endif
	for (k_ = 0; k_ < n; k_++)
		((char *) d)[k_] = ((const char *) s)[k_];
	return d;
}
void *memmove(void *d, const void *s, size_t n)
{
	size_t k_;
	if ((char *) d <= (const char *) s)
		for (k_ = 0; k_ < n; k_++)
			((char *) d)[k_] = ((const char *) s)[k_];
	else
		for (k_ = n; k_ > 0; k_--)
			((char *) d)[k_ - 1] = ((const char *) s)[k_ - 1];
	return d;
}
#endif
#define STRLEN_HOOK
#define MEMCPY_HOOK
#ifdef UNIT_LBUF_WR
#define MEMCPY_HAVOC_ALL
#endif
#include "libc.spec.h"
#include "lbuf.spec.h"
