/* proof units for /repo/lbuf.c - the real file, included verbatim */
#include "pre.h"
#include "lbuf.c"
#define STRLEN_HOOK
#define MEMCPY_HOOK
#ifdef UNIT_LBUF_WR
#define MEMCPY_HAVOC_ALL
#endif
#include "libc.spec.h"
#include "lbuf.spec.h"
