/* proof unit for ec_make and ec_exec of /repo/ex.c (":make", ":!").
 * MECHANICAL EXTRACTION (redone on every run by run.py, unit key "extract"): ex.c's preprocessor
 * lines, the verbatim text of the functions named in the unit (ec_make, ec_exec, ec_print, ec_rs, ec_undo, ec_redo, ec_source), and a prototype for every other static function
 * (bodies dropped); everything else of ex.c is dropped.  sprintf / snprintf (variadic) are routed to
 * three-argument stubs that check the destination against the length of what is formatted. */
#include "pre.h"
#include <stdio.h>
#include <fcntl.h>
#include <unistd.h>
static int verif_open(const char *path, int flags);
#define open(path, flags, ...) verif_open(path, flags)
static int verif_sprintf3(char *s, const char *fmt, const char *arg);
static int verif_snprintf4(char *s, unsigned long n, const char *fmt, const char *arg);
#define sprintf(s, f, a) verif_sprintf3(s, f, a)
#define snprintf(s, n, f, a) verif_snprintf4(s, n, f, a)
extern int xwa;
extern int xvis;
#include EXTRACT_FILE
#define STRLEN_HOOK
static long strlen_hook(const char *s);
#include "libc.spec.h"
#include "exmk.spec.h"
