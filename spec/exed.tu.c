/* proof unit for ec_edit of /repo/ex.c (":e").
 * MECHANICAL EXTRACTION (redone on every run by run.py, unit key "extract"): ex.c's preprocessor
 * lines, the declaration of the buffer table (struct buf ... bufs[16], verbatim), the verbatim text
 * of ex_path, ex_lbuf and ec_edit, and a prototype for every other static function (bodies dropped);
 * everything else of ex.c is dropped (the whole file made this unit exceed 20 minutes of solver
 * time).  The callees ec_edit's clauses are about are defined in exed.spec.h.  open / snprintf
 * (variadic) are routed to stubs as in ex.tu.c. */
#include "pre.h"
#include <fcntl.h>
#include <sys/stat.h>
#include <unistd.h>
static int verif_open(const char *path, int flags);
#define open(path, flags, ...) verif_open(path, flags)
static int verif_snprintf(char *s, unsigned long n);
#include <stdio.h>
#define snprintf(s, n, ...) verif_snprintf(s, n)
extern int xwa;
#include EXTRACT_FILE
#define NO_STUB_STRCHR
#include "libc.spec.h"
#include "exed.spec.h"
