/* lbuf_wordlast: run to the last character of the word under the cursor (the scanner behind w b e W B E) (C07) */
int xic;
struct rstr;
struct rstr *rstr_make(char *re, int flg) { return 0; }
void rstr_free(struct rstr *rs) { }
int rstr_find(struct rstr *rs, char *s, int n, int *grps, int flg) { return -1; }
int uc_code(char *s) { return nondet_int(); }
int uc_isspace(char *s) { return nondet_int(); }
int uc_off(char *s, int off) { return nondet_int(); }
char *uc_next(char *s) { return s; }
char *uc_prev(char *beg, char *s) { return s; }
int uc_slen(char *s) { return nondet_int(); }
int lbuf_len(struct lbuf *lb) { return nondet_int(); }

/* the buffer is abstract: its characters (newlines included) are numbered 0..WI.N-1 in reading order;
 * (row, off) <-> number is what lbuf_next maintains (unit mot.lbuf_next); the text is arbitrary:
 * uc_kind answers any class for the character under the scan and the stub records the answers */
struct ghost_wl_in { int N, p0, K, dir; } WI;		/* constants */
struct ghost_wl {
	int pos;		/* number of the character (row, off) stands for */
	int good;		/* how many characters from p0 on, in scan direction, were examined and found in the class */
	int stop_seen;		/* the character after those was examined and found outside the class */
	int at_end;		/* a step was refused: end of the buffer */
	int bad;
} WL;
static char g_wltext[2];
char *lbuf_get(struct lbuf *lb, int pos) { return g_wltext; }
char *uc_chr(char *s, int off) { return g_wltext; }
int uc_kind(char *s)
{
	int k = nondet_int();
	__CPROVER_assume(0 <= k && k <= 3);
	__CPROVER_assert(s == g_wltext, "uc_kind: the character under the scan");
	if (WL.pos == WI.p0 + WI.dir * WL.good && !WL.stop_seen) {
		/* the next unexamined character of the scan: any answer */
		if (k & WI.K)
			WL.good = WL.good < 0x7ffffff0 ? WL.good + 1 : WL.good;
		else
			WL.stop_seen = 1;
	} else if (WL.good >= 1 && WL.pos == WI.p0 + WI.dir * (WL.good - 1)) {
		__CPROVER_assume((k & WI.K) != 0);	/* the same character again: the same answer */
	} else if (WL.pos == WI.p0 + WI.dir * WL.good && WL.stop_seen) {
		__CPROVER_assume((k & WI.K) == 0);	/* the same character again: the same answer */
	} else
		WL.bad = 1;	/* a character off the scan path was examined */
	return k;
}
/* lbuf_next as proved in unit mot.lbuf_next, over the character numbering: one step, or refusal at either end of the buffer */
int lbuf_next_lin_contract(struct lbuf *lb, int dir, int *r, int *o)
__CPROVER_requires(r != 0 && o != 0 && (dir == 1 || dir == -1) && 0 <= WL.pos && WL.pos < WI.N)
__CPROVER_assigns(*r, *o, WL.pos, WL.at_end)
__CPROVER_ensures((0 <= __CPROVER_old(WL.pos) + dir && __CPROVER_old(WL.pos) + dir < WI.N) ?
	(__CPROVER_return_value == 0 && WL.pos == __CPROVER_old(WL.pos) + dir && WL.at_end == __CPROVER_old(WL.at_end)) :
	(__CPROVER_return_value != 0 && WL.pos == __CPROVER_old(WL.pos) && WL.at_end == 1 && *r == __CPROVER_old(*r) && *o == __CPROVER_old(*o)))
;
int lbuf_wordlast_frame_contract(struct lbuf *lb, int kind, int dir, int *row, int *off)
__CPROVER_requires(row != 0 && off != 0)
__CPROVER_assigns(*row, *off, WL)
;
#pragma CPROVER check push
#pragma CPROVER check disable "signed-overflow"
int inv_wordlast(void)
{
	return 0 <= WL.pos && WL.pos < WI.N && !WL.bad && !WL.stop_seen && !WL.at_end && WL.good >= 1 && WL.good <= WI.N &&
		(WL.pos == WI.p0 + WI.dir * (WL.good - 1) || WL.pos == WI.p0 + WI.dir * WL.good);
}
int dec_wordlast(void)
{
	return 2 * (WI.N - WL.good) + (WL.pos == WI.p0 + WI.dir * (WL.good - 1) ? 1 : 0);
}
#pragma CPROVER check pop
void h_lbuf_wordlast(void)
{
	int row = nondet_int(), off = nondet_int();
	GHOST_INIT();
	WI.N = nondet_int(); WI.p0 = nondet_int(); WI.K = nondet_int(); WI.dir = nondet_bool() ? 1 : -1;
	__CPROVER_assume(1 <= WI.N && WI.N <= 0x1000000 && 0 <= WI.p0 && WI.p0 < WI.N && 0 <= WI.K && WI.K <= 3);
	WL.pos = WI.p0; WL.good = 0; WL.stop_seen = 0; WL.at_end = 0; WL.bad = 0;
	int row0 = row, off0 = off;
	int ret = lbuf_wordlast((struct lbuf *) 0, WI.K, WI.dir, &row, &off);
	H_ASSERT(!WL.bad, "lbuf_wordlast: only characters on the scan path are examined");
	if (WL.good == 0) {
		H_ASSERT(ret == 0 && WL.pos == WI.p0 && row == row0 && off == off0, "lbuf_wordlast: a cursor that is not on a character of the class stays where it is");
	} else if (ret) {
		H_ASSERT(WL.at_end && !WL.stop_seen, "lbuf_wordlast: failure only when the word runs into the end of the buffer");
	} else {
		H_ASSERT(WL.stop_seen && WL.pos == WI.p0 + WI.dir * (WL.good - 1), "lbuf_wordlast: the cursor lands on the last character of the maximal run of class characters starting at the cursor");
	}
#ifdef CANARY
	__CPROVER_assert(0, "canary");
#endif
}
