/* proof unit for vc_replace of /repo/vi.c (r).
 * MECHANICAL EXTRACTION (redone on every run by run.py, unit key "extract"): vi.c's preprocessor
 * lines, the declaration line of vi_arg1/vi_arg2 and the verbatim text of vc_replace; everything
 * else of vi.c is dropped.  Callees are declared here and stubbed in virp.spec.h. */
#include "pre.h"
static char *vi_char(void);
static void vi_drawfix(int r1, int r2, int n, int preview);
#include EXTRACT_FILE
#include "libc.spec.h"
#include "virp.spec.h"
