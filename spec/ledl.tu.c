/* proof unit for one round of the insert-mode line editor led_line of /repo/led.c.
 * MECHANICAL EXTRACTION (redone on every run by run.py, unit key "extract"): led.c's preprocessor
 * lines, a prototype for every other static function (bodies dropped) and the verbatim text of
 * led_line; everything else of led.c is dropped.  The callees the clauses are about are defined in
 * ledl.spec.h; the variadic snprintf is routed to a stub. */
#include "pre.h"
#include <stdio.h>
static int verif_snprintf(char *s, unsigned long n);
#define snprintf(s, n, ...) verif_snprintf(s, n)
#include EXTRACT_FILE
#define STRLEN_HOOK
static long strlen_hook(const char *s);
#include "libc.spec.h"
#include "ledl.spec.h"
