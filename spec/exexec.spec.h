/* ex_exec: a command line is tokenized only if it is shorter than EXLEN, and every tokenizer is
 * started inside the line with fewer than EXLEN bytes to the terminator (C05) */
struct ghost_xe_in { char *ln; } XI;		/* constants */
struct ghost_xe { int shows, ecs, bad; long last_arg_from; } XE;
static long strlen_hook(const char *s)
{
	return s == XI.ln ? g_sl : -1;
}
static void ex_show_stub(char *msg)
{
	XE.shows = XE.shows < 1000 ? XE.shows + 1 : 1000;
}
#pragma CPROVER check push
#pragma CPROVER check disable "pointer"
#pragma CPROVER check disable "pointer-primitive"
#pragma CPROVER check disable "signed-overflow"
/* a position handed to a tokenizer: inside the line, fewer than EXLEN bytes before the terminator (its EXLEN-byte destination cannot overflow: units ex.ex_*_bounded) */
static int tok_pre(const char *src)
{
	long o = __CPROVER_POINTER_OFFSET(src);
	return __CPROVER_same_object(src, XI.ln) && 0 <= o && o <= g_sl && g_sl - o < EXLEN;
}
int inv_exec(const char *ln)
{
	long o = __CPROVER_POINTER_OFFSET(ln);
	return __CPROVER_same_object(ln, XI.ln) && 0 <= o && o <= g_sl && g_sl < EXLEN && XI.ln[g_sl] == 0 && (o < g_sl ==> XI.ln[o] != 0 || 1);
}
#pragma CPROVER check pop
/* tokenizer contracts as stubs: the result lies between the start and the terminator */
static char *tok_result(char *src)
{
	long adv = nondet_long();
	__CPROVER_assume(0 <= adv && adv <= g_sl - (long) __CPROVER_POINTER_OFFSET(src));
	return src + adv;
}
static char *ex_loc(char *src, char *loc)
{
	__CPROVER_assert(tok_pre(src), "ex_exec: the address tokenizer starts inside a line shorter than EXLEN");
	__CPROVER_assert(__CPROVER_w_ok(loc, EXLEN), "ex_exec: the address buffer has EXLEN bytes");
	return tok_result(src);
}
static char *ex_cmd(char *src, char *cmd)
{
	__CPROVER_assert(tok_pre(src), "ex_exec: the command tokenizer starts inside a line shorter than EXLEN");
	__CPROVER_assert(__CPROVER_w_ok(cmd, EXLEN), "ex_exec: the command buffer has EXLEN bytes");
	return tok_result(src);
}
static char *ex_arg(char *src, char *dst, char *excmd)
{
	__CPROVER_assert(tok_pre(src) && excmd != 0, "ex_exec: the argument tokenizer starts inside a line shorter than EXLEN");
	__CPROVER_assert(__CPROVER_w_ok(dst, EXLEN), "ex_exec: the argument buffer has EXLEN bytes");
	char *r = tok_result(src);
	/* progress (unit ex.ex_arg_bounded): unless the line is exhausted at least one byte is consumed */
	__CPROVER_assume(*src == 0 || r > src);
	return r;
}
static char *ex_txt(char *src, char **dst, char *excmd)
{
	__CPROVER_assert(tok_pre(src) && dst != 0 && excmd != 0, "ex_exec: the text reader starts inside the line");
	*dst = 0;
	return tok_result(src);
}
static int ex_idx(char *cmd)
{
	int i = nondet_int();
	__CPROVER_assume(-1 <= i && i < 2);
	return i;
}
static int ec_stub(char *loc, char *cmd, char *arg, char *txt)
{
	__CPROVER_assert(loc != 0 && cmd != 0 && arg != 0, "ex_exec: the command gets its three pieces");
	XE.ecs = XE.ecs < 0x10000 ? XE.ecs + 1 : 0x10000;
	return nondet_int();
}
int ex_exec_frame_contract(char *ln)
__CPROVER_requires(ln != 0)
__CPROVER_assigns(XE)
;
void h_ex_exec(void)
{
	GHOST_INIT();
	g_sl = nondet_long();
	__CPROVER_assume(0 <= g_sl && g_sl <= 0x100000);
	XI.ln = malloc(g_sl + 1);
	XI.ln[g_sl] = 0;
	XE.shows = XE.ecs = XE.bad = 0;
	/* (statics are not zero/initialised under dfcc: the stand-in table is set up here) */
	excmds[0].abbr = "s"; excmds[0].name = "substitute"; excmds[0].ec = ec_stub;
	excmds[1].abbr = ""; excmds[1].name = ""; excmds[1].ec = ec_stub;
	int r = ex_exec(XI.ln);
	if (g_sl >= EXLEN)
		H_ASSERT(r == 1 && XE.ecs == 0 && XE.shows == 1, "ex_exec: a line of EXLEN bytes or more is refused with a message, nothing is tokenized or executed");
#ifdef CANARY
	__CPROVER_assert(0, "canary");
#endif
}
