/* vc_replace: "Nr<c> replaces exactly the N characters at the cursor by N copies of c, or does nothing when fewer than N remain" (C08) */
int xrow, xoff;
static struct lbuf { int d; } g_rplb;
struct lbuf *ex_lbuf(void) { return &g_rplb; }
#define RP_MAX 4
struct ghost_rp_in { int has_line, has_char, rem, ne; char c; } RI;	/* constants; rem = characters from the cursor to the end of the line (the newline excluded) */
struct ghost_rp {
	int step, copies, bad;
	int sub_calls, pre_end, post_beg;
	int edit_calls, edit_beg, edit_end; char *edit_text;
} RV;
static char g_rpline[2], g_rprest[RP_MAX + 2], g_rpchar[2], g_rppre[2], g_rppost[2], g_rptext[2];
char *lbuf_get(struct lbuf *lb, int pos) { return RI.has_line ? g_rpline : (char *) 0; }
static char *vi_char(void) { return RI.has_char ? g_rpchar : (char *) 0; }
int ren_noeol(char *s, int o) { return RI.ne; }
/* uc_chr / uc_next (uc units): the cursor character and its successors; here the rest of the line is RI.rem one-byte characters and the newline */
char *uc_chr(char *s, int off)
{
	if (s != g_rpline || off != RI.ne)
		RV.bad = 1;
	return g_rprest;
}
char *uc_next(char *s) { return s + 1; }
char *uc_sub(char *s, int beg, int end)
{
	RV.sub_calls++;
	if (s != g_rpline)
		RV.bad = 1;
	if (beg == 0 && end >= 0) {
		RV.pre_end = end;
		return g_rppre;
	}
	if (end < 0) {
		RV.post_beg = beg;
		return g_rppost;
	}
	RV.bad = 1;
	return g_rppost;
}
static struct sbuf { int d; } g_rpsb;
struct sbuf *sbuf_make(void) { return &g_rpsb; }
void sbuf_free(struct sbuf *sb) { }
char *sbuf_buf(struct sbuf *sb) { return g_rptext; }
void sbuf_str(struct sbuf *sb, char *s)
{
	if (s == g_rppre && RV.step == 0)
		RV.step = 1;
	else if (s == g_rpchar && (RV.step == 1 || RV.step == 2)) {
		RV.step = 2;
		RV.copies++;
	} else if (s == g_rppost && (RV.step == 2 || RV.step == 1))
		RV.step = 3;
	else
		RV.bad = 1;
}
void lbuf_edit(struct lbuf *lb, char *s, int beg, int end)
{
	RV.edit_calls++; RV.edit_text = s; RV.edit_beg = beg; RV.edit_end = end;
}
void free(void *p) { }
static void vi_drawfix(int r1, int r2, int n, int preview) { }
void h_vc_replace(void)
{
	int k;
	GHOST_INIT();
	RI.has_line = nondet_bool(); RI.has_char = nondet_bool(); RI.rem = nondet_int(); RI.ne = nondet_int(); RI.c = nondet_char();
	vi_arg1 = nondet_int(); xrow = nondet_int(); xoff = nondet_int();
	__CPROVER_assume(0 <= RI.rem && RI.rem <= RP_MAX && 0 <= vi_arg1 && vi_arg1 <= RP_MAX && 0 <= RI.ne && RI.ne <= 0x100000 && 0 <= xrow && xrow <= 0x100000 && RI.c != 0);
	for (k = 0; k < RP_MAX + 1; k++)
		g_rprest[k] = k < RI.rem ? 'x' : '\n';
	g_rprest[RP_MAX + 1] = 0;
	g_rpchar[0] = RI.c; g_rpchar[1] = 0;
	RV.step = RV.copies = RV.bad = RV.sub_calls = RV.edit_calls = 0; RV.pre_end = RV.post_beg = -7;
	int row0 = xrow, off0 = xoff;
	int cnt = vi_arg1 > 1 ? vi_arg1 : 1;
	int ret = vc_replace();
	if (!RI.has_line || !RI.has_char || RI.rem < cnt) {
		H_ASSERT(ret == 0 && RV.edit_calls == 0 && xrow == row0 && xoff == off0, "vc_replace: no line, no character typed, or fewer than count characters left on the line: nothing changes");
		return;
	}
	H_ASSERT(!RV.bad && RV.step == 3 && RV.copies == cnt, "vc_replace: the line is rebuilt as the text before the cursor, count copies of the typed character, the text after the replaced characters");
	H_ASSERT(RV.pre_end == RI.ne && RV.post_beg == RI.ne + cnt, "vc_replace: exactly the count characters starting at the cursor are replaced");
	H_ASSERT(RV.edit_calls == 1 && RV.edit_text == g_rptext && RV.edit_beg == row0 && RV.edit_end == row0 + 1, "vc_replace: exactly the cursor line is replaced");
	if (RI.c == '\n')
		H_ASSERT(xrow == row0 + cnt && xoff == 0, "vc_replace: replacing by newlines leaves the cursor at the start of the last new line");
	else
		H_ASSERT(xrow == row0 && xoff == RI.ne + cnt - 1, "vc_replace: the cursor ends on the last replaced character");
#ifdef CANARY
	__CPROVER_assert(0, "canary");
#endif
}
