/* proof unit for vc_insert of /repo/vi.c (i a I A o O).
 * MECHANICAL EXTRACTION (redone on every run by run.py, unit key "extract"): vi.c's preprocessor
 * lines and the verbatim text of vc_insert; everything else of vi.c is dropped.  Callees are
 * declared here and stubbed in viin.spec.h. */
#include "pre.h"
static void vi_drawfix(int r1, int r2, int n, int preview);
static void vi_nextline(void);
static char *vi_indents(char *ln);
static char *vi_input(char *pref, char *post, int *row, int *off);
#include EXTRACT_FILE
#include "libc.spec.h"
#include "viin.spec.h"
