/* contracts for /repo/dir.c (C18: reordering is a permutation that reverses runs) */
int xtd;
int g_n;		/* number of entries of ord[] */
int g_w;		/* witness index */
int g_wa, g_wb;		/* values of ord[g_w] and ord[beg+end-1-g_w] on entry */

/* ---- dir_reverse: exact reversal of [beg, end), nothing else touched ---- */
void dir_reverse_contract(int *ord, int beg, int end)
__CPROVER_requires(0 <= g_n && g_n <= 0x1000000 && __CPROVER_is_fresh(ord, sizeof(int) * (g_n + 1)))
__CPROVER_requires(0 <= beg && beg <= end && end <= g_n)
__CPROVER_requires(0 <= g_w && g_w < g_n && g_wa == ord[g_w])
__CPROVER_requires((beg <= g_w && g_w < end) ==> g_wb == ord[beg + end - 1 - g_w])
__CPROVER_assigns(__CPROVER_object_whole(ord))
/* inside the range: mirror image; outside: untouched  => a permutation of the same entries */
__CPROVER_ensures((beg <= g_w && g_w < end) ==> ord[g_w] == g_wb)
__CPROVER_ensures(!(beg <= g_w && g_w < end) ==> ord[g_w] == g_wa)
;

void h_dir_reverse(void)
{
	int *ord, beg, end;
	GHOST_INIT();
	g_n = nondet_int(); g_w = nondet_int(); g_wa = nondet_int(); g_wb = nondet_int();
	dir_reverse(ord, beg, end);
#ifdef CANARY
	__CPROVER_assert(0, "canary");
#endif
}
