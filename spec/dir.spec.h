/* contracts for /repo/dir.c (C18: reordering is a permutation that reverses runs) */
int xtd;
int g_n;		/* number of entries of ord[] */
int g_w;		/* witness index */
int g_wa, g_wb;		/* values of ord[g_w] and ord[beg+end-1-g_w] on entry */

/* ---- dir_reverse: exact reversal of [beg, end), nothing else touched ---- */
void dir_reverse_contract(int *ord, int beg, int end)
__CPROVER_requires(0 <= g_n && g_n <= 0x1000000 && __CPROVER_is_fresh(ord, sizeof(int) * (g_n + 1)))
__CPROVER_requires(0 <= beg && beg <= end && end <= g_n)
__CPROVER_requires(0 <= g_w && g_w < g_n && g_wa == ord[g_w])
__CPROVER_requires((beg <= g_w && g_w < end) ==> g_wb == ord[beg + end - 1 - g_w])
__CPROVER_assigns(__CPROVER_object_whole(ord))
/* inside the range: mirror image; outside: untouched  => a permutation of the same entries */
__CPROVER_ensures((beg <= g_w && g_w < end) ==> ord[g_w] == g_wb)
__CPROVER_ensures(!(beg <= g_w && g_w < end) ==> ord[g_w] == g_wa)
;

void h_dir_reverse(void)
{
	int *ord, beg, end;
	GHOST_INIT();
	g_n = nondet_int(); g_w = nondet_int(); g_wa = nondet_int(); g_wb = nondet_int();
	dir_reverse(ord, beg, end);
#ifdef CANARY
	__CPROVER_assert(0, "canary");
#endif
}

/* ================================================================== dir_context: the base direction of a line (C18) */
struct ghost_dc { int found, table_dir, table_has, find_calls; char *find_s; } DC;
int rset_find(struct rset *rs, char *s, int n, int *grps, int flg)
{
	__CPROVER_assert(rs != 0 && s != 0 && n == 0, "rset_find: compiled set, a line, no groups asked for");
	DC.find_calls++;
	DC.find_s = s;
	return DC.found;
}
/* conf.c's table lookup: fails outside the table, otherwise reports the entry's direction (+1 / -1) */
int conf_dircontext(int idx, char **pat, int *ctx)
{
	if (idx < 0 || !DC.table_has)
		return 1;
	if (ctx)
		*ctx = DC.table_dir;
	return 0;
}
int dir_context_frame_contract(char *s)
__CPROVER_requires(s != 0)
__CPROVER_assigns(DC)
;
static struct rset { int d; } g_rsctx;
void h_dir_context(void)
{
	char s[2];
	GHOST_INIT();
	s[0] = nondet_char(); s[1] = 0;
	xtd = nondet_int();
	DC.found = nondet_int(); DC.table_has = nondet_bool(); DC.table_dir = nondet_bool() ? +1 : -1; DC.find_calls = 0;
	__CPROVER_assume(DC.found >= -1);
	dir_rsctx = nondet_bool() ? &g_rsctx : (struct rset *) 0;
	int has_set = dir_rsctx != 0;
	int r = dir_context(s);
	H_ASSERT(r == +1 || r == -1, "dir_context: a direction");
	if (xtd > 1)
		H_ASSERT(r == +1 && DC.find_calls == 0, "dir_context: td=2 forces left-to-right, no pattern is consulted");
	else if (xtd < -1)
		H_ASSERT(r == -1 && DC.find_calls == 0, "dir_context: td=-2 forces right-to-left, no pattern is consulted");
	else if (xtd == 0 && !((unsigned char) s[0] & 0x80))
		H_ASSERT(r == +1 && DC.find_calls == 0, "dir_context: td=0 and a line starting with an ASCII byte is left-to-right");
	else if (has_set && DC.found >= 0 && DC.table_has)
		H_ASSERT(r == DC.table_dir && DC.find_s == s, "dir_context: otherwise the first matching context pattern decides");
	else
		H_ASSERT(r == (xtd < 0 ? -1 : +1), "dir_context: no pattern matches - td=-1 means right-to-left, td=0/+1 left-to-right");
#ifdef CANARY
	__CPROVER_assert(0, "canary");
#endif
}

/* ================================================================== dir_fix: reversals stay inside the segment, runs are processed left to right (C18) */
struct ghost_df_in { int lo, hi; int *ord; } DFI;	/* constants: the segment handed to the outermost dir_fix */
struct ghost_df { int reversals; } DF;
/* dir_match as seen by dir_fix: no match, or a NON-EMPTY run [r_beg, r_end) inside [beg, end) with a group [c_beg, c_end) inside the run
 * (assumption MARK_NONEMPTY: the direction-mark patterns of conf.h do not match the empty string) */
int dir_match_contract(char **chrs, int beg, int end, int ctx, int *rec, int *r_beg, int *r_end, int *c_beg, int *c_end, int *dir)
__CPROVER_requires(DFI.lo <= beg && beg < end && end <= DFI.hi)
__CPROVER_requires(rec != 0 && r_beg != 0 && r_end != 0 && c_beg != 0 && c_end != 0 && dir != 0)
__CPROVER_assigns(*rec, *r_beg, *r_end, *c_beg, *c_end, *dir)
__CPROVER_ensures(__CPROVER_return_value == 0 || __CPROVER_return_value == 1)
__CPROVER_ensures(__CPROVER_return_value == 0 ==> (beg <= *r_beg && *r_beg < *r_end && *r_end <= end &&
	*r_beg <= *c_beg && *c_beg <= *c_end && *c_end <= *r_end && (*dir == 1 || *dir == -1) && (*rec == 0 || *rec == 1)))
;
/* dir_reverse as seen by dir_fix: its own contract (unit dir.dir_reverse: exact mirror image of [beg,end), nothing else touched) plus a count */
void dir_reverse_rec_contract(int *ord, int beg, int end)
__CPROVER_requires(ord == DFI.ord && DFI.lo <= beg && beg <= end && end <= DFI.hi)
__CPROVER_assigns(__CPROVER_object_whole(ord), DF.reversals)
__CPROVER_ensures(DF.reversals == (__CPROVER_old(DF.reversals) < 1000000 ? __CPROVER_old(DF.reversals) + 1 : 1000000))
;
/* induction over the nesting of runs: every call (the outermost and the recursive ones, which enter by this contract) works inside the segment */
void dir_fix_contract(char **chrs, int *ord, int dir, int beg, int end)
__CPROVER_requires(0 <= DFI.lo && DFI.lo <= DFI.hi && DFI.hi <= 0x1000000 && __CPROVER_is_fresh(ord, sizeof(int) * (DFI.hi + 1)))
__CPROVER_requires(ord == DFI.ord && DFI.lo <= beg && end <= DFI.hi && beg <= DFI.hi + 1 && chrs != 0)
__CPROVER_assigns(__CPROVER_object_whole(ord), DF)
;
void h_dir_fix(void)
{
	char *chrs[1];
	int *ord;
	int dir = nondet_int(), beg = nondet_int(), end = nondet_int();
	GHOST_INIT();
	DFI.lo = nondet_int(); DFI.hi = nondet_int();
	int *o; DFI.ord = o;
	DF.reversals = 0;
	dir_fix(chrs, ord, dir, beg, end);
#ifdef CANARY
	__CPROVER_assert(0, "canary");
#endif
}

/* ================================================================== dir_reorder: the final newline stays last, the rest is handed to dir_fix (C18) */
struct ghost_dr_in { int n, last_nl, ctx; } DRI;
struct ghost_dr { int fix_calls, fix_dir, fix_beg, fix_end, ctx_calls; } DR;
static char g_drtext[3];
static char *g_drchrs_obj;
char **uc_chop(char *s, int *n)
{
	/* the characters of the line: all that matters here is how many there are and whether the last one is the newline */
	char **c = malloc((DRI.n + 1) * sizeof(c[0]));
	if (DRI.n > 0)
		c[DRI.n - 1] = DRI.last_nl ? g_drtext + 1 : g_drtext;
	*n = DRI.n;
	return c;
}
int dir_context_rec_contract(char *s)
__CPROVER_requires(s != 0)
__CPROVER_assigns(DR.ctx_calls)
__CPROVER_ensures(__CPROVER_return_value == DRI.ctx && DR.ctx_calls == __CPROVER_old(DR.ctx_calls) + 1)
;
void dir_fix_rec_contract(char **chrs, int *ord, int dir, int beg, int end)
__CPROVER_requires(chrs != 0 && ord != 0 && DR.fix_calls == 0)
__CPROVER_assigns(DR.fix_calls, DR.fix_dir, DR.fix_beg, DR.fix_end)
__CPROVER_ensures(DR.fix_calls == 1 && DR.fix_dir == dir && DR.fix_beg == beg && DR.fix_end == end)
;
void dir_reorder_contract(char *s, int *ord)
__CPROVER_requires(0 <= DRI.n && DRI.n <= 0x1000000 && s != 0 && __CPROVER_is_fresh(ord, sizeof(int) * (DRI.n + 1)))
__CPROVER_assigns(DR, __CPROVER_object_whole(ord))
__CPROVER_frees()
/* a final newline is never reordered: it keeps the last place; everything before it is one segment for dir_fix, in the line's base direction */
__CPROVER_ensures(DR.fix_calls == 1 && DR.ctx_calls == 1 && DR.fix_dir == DRI.ctx && DR.fix_beg == 0 && DR.fix_end == DRI.n - ((DRI.n > 0 && DRI.last_nl) ? 1 : 0))
__CPROVER_ensures((DRI.n > 0 && DRI.last_nl) ==> ord[DRI.n - 1] == DRI.n - 1)
;
void h_dir_reorder(void)
{
	int *ord;
	GHOST_INIT();
	DRI.n = nondet_int(); DRI.last_nl = nondet_bool(); DRI.ctx = nondet_bool() ? 1 : -1;
	g_drtext[0] = 'x'; g_drtext[1] = '\n'; g_drtext[2] = 0;
	DR.fix_calls = DR.ctx_calls = 0;
	dir_reorder(g_drtext, ord);
#ifdef CANARY
	__CPROVER_assert(0, "canary");
#endif
}
