/* vi_shift: > puts one tab in front of every non-empty line of the region, < removes one leading blank or tab (C08) */
int xrow, xoff;
static struct lbuf { int d; } g_shlb;
struct lbuf *ex_lbuf(void) { return &g_shlb; }
#define SH_MAX 3
struct ghost_sh_in { int r1, n; char first[SH_MAX]; int has[SH_MAX]; int indent; } SHI;	/* first byte of each line of the region; whether the line exists */
struct ghost_sh {
	int cur;		/* line being rebuilt */
	int tab[SH_MAX];	/* a tab was put in front */
	char *tail[SH_MAX];	/* the text appended after it */
	int edits[SH_MAX];	/* lbuf_edit calls replacing exactly this line */
	int bad;
} SH;
static char t_sh[SH_MAX][3], t_shbuf[2];
static struct sbuf { int d; } g_shsb;
char *lbuf_get(struct lbuf *lb, int pos)
{
	int k = pos - SHI.r1;
	if (k < 0 || k >= SH_MAX || !SHI.has[k])
		return 0;
	SH.cur = k;
	return t_sh[k];
}
struct sbuf *sbuf_make(void) { return &g_shsb; }
void sbuf_free(struct sbuf *sb) { }
char *sbuf_buf(struct sbuf *sb) { return t_shbuf; }
void sbuf_chr(struct sbuf *sb, int c)
{
	if (c != '\t' || SH.tab[SH.cur] || SH.tail[SH.cur])
		SH.bad = 1;
	SH.tab[SH.cur] = 1;
}
void sbuf_str(struct sbuf *sb, char *s)
{
	if (SH.tail[SH.cur])
		SH.bad = 1;
	SH.tail[SH.cur] = s;
}
void lbuf_edit(struct lbuf *lb, char *s, int beg, int end)
{
	int k = beg - SHI.r1;
	if (s != t_shbuf || k != SH.cur || end != beg + 1)
		SH.bad = 1;
	else
		SH.edits[k]++;
}
int lbuf_indents(struct lbuf *lb, int r) { return SHI.indent; }
static void vi_drawfix(int r1, int r2, int n, int preview) { }
void h_vi_shift(void)
{
	int k, dir = nondet_bool() ? 1 : -1;
	GHOST_INIT();
	SHI.r1 = nondet_int(); SHI.n = nondet_int(); SHI.indent = nondet_int();
	__CPROVER_assume(0 <= SHI.r1 && SHI.r1 <= 0x100000 && 1 <= SHI.n && SHI.n <= SH_MAX);
	for (k = 0; k < SH_MAX; k++) {
		SHI.first[k] = nondet_char(); SHI.has[k] = nondet_bool();
		__CPROVER_assume(SHI.first[k] != 0);
		t_sh[k][0] = SHI.first[k]; t_sh[k][1] = SHI.first[k] == '\n' ? 0 : '\n'; t_sh[k][2] = 0;
		SH.tab[k] = 0; SH.tail[k] = 0; SH.edits[k] = 0;
	}
	SH.cur = 0; SH.bad = 0;
	vi_shift(SHI.r1, SHI.r1 + SHI.n - 1, dir);
	H_ASSERT(!SH.bad, "vi_shift: every line is rebuilt on its own and replaces exactly itself");
	k = nondet_int();
	__CPROVER_assume(0 <= k && k < SH_MAX);
	if (k < SHI.n && SHI.has[k]) {
		H_ASSERT(SH.edits[k] == 1, "vi_shift: every line of the region is rewritten once");
		if (dir > 0)
			H_ASSERT(SH.tab[k] == (SHI.first[k] != '\n') && SH.tail[k] == t_sh[k], "vi_shift: > puts one tab in front of the line, unless it is empty");
		else
			H_ASSERT(!SH.tab[k] && SH.tail[k] == t_sh[k] + (SHI.first[k] == ' ' || SHI.first[k] == '\t' ? 1 : 0), "vi_shift: < removes one leading blank or tab, nothing else");
	} else
		H_ASSERT(SH.edits[k] == 0, "vi_shift: lines outside the region are not touched");
	H_ASSERT(xrow == SHI.r1 && xoff == SHI.indent, "vi_shift: the cursor goes to the first non-blank of the region's first line");
#ifdef CANARY
	__CPROVER_assert(0, "canary");
#endif
}
