/* proof unit for ren_position_reorder of /repo/ren.c.
 * MECHANICAL EXTRACTION (redone on every run by run.py, unit key "extract"): ren.c's preprocessor
 * lines and the verbatim text of ren_position_reorder; everything else of ren.c is dropped (with the
 * whole file the unit needs contract replacement for ren_cwid, and the instrumented formula ran out
 * of memory).  Callees (uc_chop, dir_reorder, ren_cwid) are stubbed in renro.spec.h. */
#include "pre.h"
static int ren_cwid(char *s, int pos);
#include EXTRACT_FILE
#include "libc.spec.h"
#include "renro.spec.h"
