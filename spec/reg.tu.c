/* proof units for /repo/reg.c - the real file, included verbatim */
#include "pre.h"
#include "reg.c"
#define NO_STUB_STRLEN
#define NO_STUB_STRCHR
#include "libc.spec.h"
#include "reg.spec.h"
