/* proof unit for lbuf_wordend of /repo/mot.c (e E b B) - the real file, included verbatim */
#include "pre.h"
#include "mot.c"
#include "libc.spec.h"
#include "motwe.spec.h"
