/* proof unit for uc_shape of /repo/uc.c (which neighbours decide the shape of an Arabic letter).
 * MECHANICAL EXTRACTION (redone on every run by run.py, unit key "extract"): uc.c's preprocessor
 * lines (the UC_R2L macro among them) and the verbatim text of uc_shape; everything else of uc.c is
 * dropped; its callees are declared here and stubbed in ucsh.spec.h. */
#include "pre.h"
static int uc_acomb(int c);
static int uc_cshape(int cur, int prev, int next);
#include EXTRACT_FILE
#include "libc.spec.h"
#include "ucsh.spec.h"
