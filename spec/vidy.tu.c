/* proof units for lbuf_region / vi_yank / vi_delete of /repo/vi.c.
 * MECHANICAL EXTRACTION (redone on every run by run.py, unit key "extract"): vi.c's preprocessor
 * lines, the declaration line of vi_ybuf and the verbatim text of the functions named in the unit (lbuf_region, vi_yank, vi_delete, vi_pipe, vi_change); everything
 * else of vi.c is dropped.  Callees are declared here and stubbed in vidy.spec.h. */
#include "pre.h"
static void vi_drawfix(int r1, int r2, int n, int preview);
static char *vi_prompt(char *msg, int *kmap, char *hist);
static char *reg_getln(int h);
static char *vi_indents(char *ln);
static char *vi_input(char *pref, char *post, int *row, int *off);
static void reg_putln(int h, char *s);
#include EXTRACT_FILE
#include "libc.spec.h"
#include "vidy.spec.h"
