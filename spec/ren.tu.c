/* proof units for /repo/ren.c - the real file, included verbatim */
#include "pre.h"
#include "ren.c"
#define NO_STUB_STRLEN
#include "libc.spec.h"
#include "ren.spec.h"
