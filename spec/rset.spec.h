/* contracts for /repo/rset.c (C13: the pattern typed for / ? and ex addresses; C10: pattern sets) */
int regcomp(regex_t *preg, char *regex, int cflags) { return 1; }
void regfree(regex_t *preg) { }

/* the string buffer as an output stream (sbuf units prove it keeps bytes and order) */
#define RD_MAX 8
struct ghost_rd { int n; char out[2 * RD_MAX + 2]; } RDO;
static struct sbuf { int d; } g_rsb;
struct sbuf *sbuf_make(void) { RDO.n = 0; return &g_rsb; }
void sbuf_chr(struct sbuf *sb, int c)
{
	__CPROVER_assert(sb == &g_rsb && RDO.n < 2 * RD_MAX, "sbuf_chr: the buffer made for this pattern");
	RDO.out[RDO.n++] = (char) c;
}
void sbuf_str(struct sbuf *sb, char *s) { }
void sbuf_mem(struct sbuf *sb, char *s, int len) { }
char *sbuf_buf(struct sbuf *sb) { return RDO.out; }
char *sbuf_done(struct sbuf *sb)
{
	RDO.out[RDO.n] = 0;
	return RDO.out;
}
void sbuf_free(struct sbuf *sb) { }

/* ================================================================== BOUNDED: re_read - the delimited pattern of / ? :s :g (C13) */
/* every source text of at most RD_MAX-1 bytes over all byte values: the pattern is the text between
 * the opening delimiter and the first unescaped closing delimiter (or the end); "\d" for the
 * delimiter d stands for d, every other backslash pair is kept as it is; the source pointer is
 * left behind the closing delimiter */
void h_re_read_bounded(void)
{
	char src[RD_MAX];
	int k, L = nondet_int();
	__CPROVER_assume(0 <= L && L < RD_MAX);
	for (k = 0; k < RD_MAX; k++)
		src[k] = nondet_char();
	for (k = 0; k < RD_MAX; k++)
		__CPROVER_assume(k >= L || src[k] != 0);
	src[L] = 0;
	char *p = src;
	char *r = re_read(&p);
	if (L == 0) {
		H_ASSERT(r == 0 && p == src, "re_read: an empty source has no pattern");
		return;
	}
	/* the statement, written out as a scan: position i, output position o */
	char d = src[0];
	/* the delimiter is a one-byte character, i.e. ASCII: a byte >= 0x80 is a piece of a multi-byte character and
	 * no listed property speaks about such delimiters (the code compares a signed char with an int 128..255 there and never closes) */
	__CPROVER_assume(d > 0);
	int i = 1, o = 0;
	H_ASSERT(r == RDO.out, "re_read: a pattern is returned");
	for (k = 0; k < RD_MAX; k++) {
		if (!(src[i] && src[i] != d))
			break;
		if (src[i] == '\\' && src[i + 1] == d) {		/* escaped delimiter: the delimiter itself */
			H_ASSERT(RDO.out[o] == d, "re_read: an escaped delimiter stands for the delimiter");
			o += 1; i += 2;
		} else if (src[i] == '\\' && src[i + 1]) {	/* any other backslash pair is kept */
			H_ASSERT(RDO.out[o] == '\\' && RDO.out[o + 1] == src[i + 1], "re_read: any other backslash pair is kept as it is");
			o += 2; i += 2;
		} else {
			H_ASSERT(RDO.out[o] == src[i], "re_read: every other byte is copied");
			o += 1; i += 1;
		}
	}
	H_ASSERT(RDO.n == o && RDO.out[o] == 0, "re_read: the pattern ends at the first unescaped delimiter (or the end of the source)");
	H_ASSERT(p == src + i + (src[i] != 0), "re_read: the source is left behind the closing delimiter (at the terminator if there is none)");
#ifdef CANARY
	__CPROVER_assert(0, "canary");
#endif
}

/* ================================================================== BOUNDED: rset_find - which pattern of a set matched, and its groups (C10, C12) */
/* sets of up to RS_MAXN patterns (some absent), each with 0..2 groups of its own, numbered the way
 * rset_make numbers them; the combined expression's matcher is a stub that reports any outcome */
#define RS_MAXN 3
#define RS_MAXG 12
struct ghost_rsf_in { int found; int so[RS_MAXG], eo[RS_MAXG]; } RFI;
struct ghost_rsf { int calls, flg, nsub, bad; char *subj; } RF;
int regexec(regex_t *preg, char *str, int nmatch, regmatch_t pmatch[], int eflags)
{
	int i;
	RF.calls++; RF.flg = eflags; RF.nsub = nmatch; RF.subj = str;
	if (!RFI.found)
		return 1;
	for (i = 0; i < RS_MAXG; i++)
		if (i < nmatch) {
			pmatch[i].rm_so = RFI.so[i];
			pmatch[i].rm_eo = RFI.eo[i];
		}
	return 0;
}
void h_rset_find_bounded(void)
{
	struct rset rs;
	int grp[RS_MAXN + 1], cnt[RS_MAXN + 1], out[8];
	char subj[2];
	int i, n = nondet_int(), want = nondet_int(), flg = nondet_int();
	GHOST_INIT();
	__CPROVER_assume(0 <= n && n <= RS_MAXN && 0 <= want && want <= 4);
	__CPROVER_assume((flg & ~(RE_ICASE | RE_NOTBOL | RE_NOTEOL)) == 0);
	/* the numbering rset_make produces: group 1 is the outer parenthesis, pattern i owns groups grp[i] .. grp[i] + cnt[i] */
	int g = 2;
	for (i = 0; i < RS_MAXN; i++) {
		if (i >= n)
			break;
		if (nondet_bool()) {	/* an absent pattern */
			grp[i] = -1; cnt[i] = 0;
		} else {
			cnt[i] = nondet_int();
			__CPROVER_assume(0 <= cnt[i] && cnt[i] <= 2);
			grp[i] = g;
			g += 1 + cnt[i];
		}
	}
	grp[n] = g;
	rs.n = n; rs.grp = grp; rs.setgrpcnt = cnt; rs.grpcnt = g;
	RFI.found = nondet_bool();
	for (i = 0; i < RS_MAXG; i++) {
		RFI.so[i] = nondet_int(); RFI.eo[i] = nondet_int();
		__CPROVER_assume(-1 <= RFI.so[i] && RFI.so[i] <= 100 && -1 <= RFI.eo[i] && RFI.eo[i] <= 100);
	}
	for (i = 0; i < 8; i++)
		out[i] = -7;
	RF.calls = RF.bad = 0;
	int r = rset_find(&rs, subj, want, out, flg);
	if (g <= 2) {
		H_ASSERT(r == -1 && RF.calls == 0, "rset_find: a set without patterns matches nothing");
		return;
	}
	H_ASSERT(RF.calls == 1 && RF.subj == subj && RF.nsub == g && RF.flg == (REG_NEWLINE | ((flg & RE_NOTBOL) ? REG_NOTBOL : 0) | ((flg & RE_NOTEOL) ? REG_NOTEOL : 0)),
		"rset_find: the combined expression is matched once, with not-at-line-start / not-at-line-end handed on");
	int exp = -1;
	for (i = 0; i < RS_MAXN; i++)
		if (i < n && RFI.found && grp[i] >= 0 && RFI.so[grp[i]] >= 0)
			exp = i;
	H_ASSERT(r == exp, "rset_find: the index reported is that of the pattern whose own group took part in the match (-1 when nothing matched)");
	if (r >= 0)
		for (i = 0; i < 4; i++)
			if (i < want) {
				if (i <= cnt[r])
					H_ASSERT(out[2 * i] == RFI.so[grp[r] + i] && out[2 * i + 1] == RFI.eo[grp[r] + i], "rset_find: group i of the matching pattern is reported from that pattern's own group numbers");
				else
					H_ASSERT(out[2 * i] == -1 && out[2 * i + 1] == -1, "rset_find: groups the pattern does not have read as unset");
			}
#ifdef CANARY
	__CPROVER_assert(0, "canary");
#endif
}
