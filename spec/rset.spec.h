/* contracts for /repo/rset.c (C13: the pattern typed for / ? and ex addresses; C10: pattern sets) */
int regcomp(regex_t *preg, char *regex, int cflags) { return 1; }
int regexec(regex_t *preg, char *str, int nmatch, regmatch_t pmatch[], int eflags) { return 1; }
void regfree(regex_t *preg) { }

/* the string buffer as an output stream (sbuf units prove it keeps bytes and order) */
#define RD_MAX 8
struct ghost_rd { int n; char out[2 * RD_MAX + 2]; } RDO;
static struct sbuf { int d; } g_rsb;
struct sbuf *sbuf_make(void) { RDO.n = 0; return &g_rsb; }
void sbuf_chr(struct sbuf *sb, int c)
{
	__CPROVER_assert(sb == &g_rsb && RDO.n < 2 * RD_MAX, "sbuf_chr: the buffer made for this pattern");
	RDO.out[RDO.n++] = (char) c;
}
void sbuf_str(struct sbuf *sb, char *s) { }
void sbuf_mem(struct sbuf *sb, char *s, int len) { }
char *sbuf_buf(struct sbuf *sb) { return RDO.out; }
char *sbuf_done(struct sbuf *sb)
{
	RDO.out[RDO.n] = 0;
	return RDO.out;
}
void sbuf_free(struct sbuf *sb) { }

/* ================================================================== BOUNDED: re_read - the delimited pattern of / ? :s :g (C13) */
/* every source text of at most RD_MAX-1 bytes over all byte values: the pattern is the text between
 * the opening delimiter and the first unescaped closing delimiter (or the end); "\d" for the
 * delimiter d stands for d, every other backslash pair is kept as it is; the source pointer is
 * left behind the closing delimiter */
void h_re_read_bounded(void)
{
	char src[RD_MAX];
	int k, L = nondet_int();
	__CPROVER_assume(0 <= L && L < RD_MAX);
	for (k = 0; k < RD_MAX; k++)
		src[k] = nondet_char();
	for (k = 0; k < RD_MAX; k++)
		__CPROVER_assume(k >= L || src[k] != 0);
	src[L] = 0;
	char *p = src;
	char *r = re_read(&p);
	if (L == 0) {
		H_ASSERT(r == 0 && p == src, "re_read: an empty source has no pattern");
		return;
	}
	/* the statement, written out as a scan: position i, output position o */
	char d = src[0];
	/* the delimiter is a one-byte character, i.e. ASCII: a byte >= 0x80 is a piece of a multi-byte character and
	 * no listed property speaks about such delimiters (the code compares a signed char with an int 128..255 there and never closes) */
	__CPROVER_assume(d > 0);
	int i = 1, o = 0;
	H_ASSERT(r == RDO.out, "re_read: a pattern is returned");
	for (k = 0; k < RD_MAX; k++) {
		if (!(src[i] && src[i] != d))
			break;
		if (src[i] == '\\' && src[i + 1] == d) {		/* escaped delimiter: the delimiter itself */
			H_ASSERT(RDO.out[o] == d, "re_read: an escaped delimiter stands for the delimiter");
			o += 1; i += 2;
		} else if (src[i] == '\\' && src[i + 1]) {	/* any other backslash pair is kept */
			H_ASSERT(RDO.out[o] == '\\' && RDO.out[o + 1] == src[i + 1], "re_read: any other backslash pair is kept as it is");
			o += 2; i += 2;
		} else {
			H_ASSERT(RDO.out[o] == src[i], "re_read: every other byte is copied");
			o += 1; i += 1;
		}
	}
	H_ASSERT(RDO.n == o && RDO.out[o] == 0, "re_read: the pattern ends at the first unescaped delimiter (or the end of the source)");
	H_ASSERT(p == src + i + (src[i] != 0), "re_read: the source is left behind the closing delimiter (at the terminator if there is none)");
#ifdef CANARY
	__CPROVER_assert(0, "canary");
#endif
}
