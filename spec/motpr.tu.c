/* proof unit for lbuf_pair of /repo/mot.c (%) - the real file, included verbatim.
 * strchr on the 6-byte constant bracket string is routed to an exact loop-free macro (a loop inside
 * a callee of a loop under contract would need a contract of its own). */
#include "pre.h"
#include <string.h>
static char *verif_strchr(const char *s, int c);
#define strchr(s, c) verif_strchr(s, c)
#include "mot.c"
#define STRCHR_EXACT
#include "libc.spec.h"
#include "motpr.spec.h"
