/* the private UTF-8 decoders of regex.c against those of uc.c (C16).
 * Two repository files share this TU; regex.c's private helpers are renamed by #define before
 * its include (uc_len -> rx_uc_len, uc_beg -> rx_uc_beg, isword -> rx_isword, LEN/MAX undefined
 * in between).  Nothing is rewritten. */
#include "pre.h"
#include "uc.c"
#undef LEN
#undef MAX
#define uc_len rx_uc_len
#define uc_beg rx_uc_beg
#define isword rx_isword
#include "regex.c"
#undef uc_len
#undef uc_beg
#undef isword
#include "libc.spec.h"

void h_rx_uc(void)
{
	unsigned char w[12];
	int k;
	for (k = 0; k < 11; k++)
		w[k] = nondet_uchar();
	w[11] = 0;
	char *p = (char *) w + 3;
	/* every 4-byte window, valid or not (the two copies must agree on every byte sequence) */
	__CPROVER_assert(rx_uc_len(p) == uc_len(p), "regex.c's uc_len == uc.c's uc_len on every lead byte");
	__CPROVER_assert(uc_dec(p) == uc_code(p), "regex.c's uc_dec == uc.c's uc_code on every 4-byte window");
	int j = nondet_int();
	__CPROVER_assume(0 <= j && j <= 8);
	__CPROVER_assert(rx_uc_beg((char *) w, (char *) w + j) == uc_beg((char *) w, (char *) w + j), "regex.c's uc_beg == uc.c's uc_beg from every position");
	__CPROVER_assert(!!rx_isword(p) == (verif_ctype(w[3], _ISalnum) != 0 || w[3] == '_' || w[3] > 127), "regex.c's isword: alphanumeric, '_' or any non-ASCII byte");
#ifdef CANARY
	__CPROVER_assert(0, "canary");
#endif
}
