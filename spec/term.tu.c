/* proof units for /repo/term.c - the real file, included verbatim */
#include "pre.h"
#include "term.c"
#include "libc.spec.h"
#include "term.spec.h"
