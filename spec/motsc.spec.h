/* lbuf_sectionbeg: [[ and ]] go to the nearest line before / after the cursor line that matches the
 * section pattern, or to the first / last line (C07) */
int xic;
int uc_off(char *s, int off) { return nondet_int(); }
char *uc_next(char *s) { return s; }
char *uc_prev(char *beg, char *s) { return s; }
int uc_slen(char *s) { return nondet_int(); }
int uc_kind(char *s) { return nondet_int(); }
int uc_code(char *s) { return nondet_int(); }
int uc_isspace(char *s) { return nondet_int(); }
char *uc_chr(char *s, int off) { return s; }
struct ghost_sc_in { int n, r0, dir; } SCI;	/* constants */
struct ghost_sc { int cur, exam, hit, bad, made, freed; } SCV;
static char g_scline[2];
static struct rstr { int d; } g_scre;
int lbuf_len(struct lbuf *lb) { return SCI.n; }
char *lbuf_get(struct lbuf *lb, int pos)
{
	if (pos < 0 || pos >= SCI.n)
		return 0;
	SCV.cur = pos;
	return g_scline;
}
struct rstr *rstr_make(char *re, int flg) { SCV.made++; return &g_scre; }
void rstr_free(struct rstr *rs) { SCV.freed++; }
/* the matcher answers anything for the line looked at; lines must be looked at one after the other starting next to the cursor line */
int rstr_find(struct rstr *rs, char *s, int n, int *grps, int flg)
{
	if (rs != &g_scre || s != g_scline || SCV.hit || SCV.cur != SCI.r0 + SCI.dir * (SCV.exam + 1))
		SCV.bad = 1;
	SCV.exam = SCV.exam < 0x7ffffff0 ? SCV.exam + 1 : SCV.exam;
	if (nondet_bool()) {
		SCV.hit = 1;
		return 0;
	}
	return -1;
}
int lbuf_sectionbeg_frame_contract(struct lbuf *lb, int dir, char *sec, int *row, int *off)
__CPROVER_requires(row != 0 && off != 0)
__CPROVER_assigns(*row, *off, SCV)
;
#pragma CPROVER check push
#pragma CPROVER check disable "signed-overflow"
int inv_section(int row)
{
	return !SCV.bad && !SCV.hit && SCV.made == 1 && SCV.freed == 0 && 0 <= SCV.exam && SCV.exam <= SCI.n && row == SCI.r0 + SCI.dir * (SCV.exam + 1);
}
#pragma CPROVER check pop
void h_lbuf_sectionbeg(void)
{
	int row = nondet_int(), off = nondet_int();
	char sec[2];
	GHOST_INIT();
	SCI.n = nondet_int(); SCI.dir = nondet_bool() ? 1 : -1;
	__CPROVER_assume(1 <= SCI.n && SCI.n <= 0x1000000 && 0 <= row && row < SCI.n);
	SCI.r0 = row;
	SCV.cur = -1; SCV.exam = 0; SCV.hit = 0; SCV.bad = 0; SCV.made = 0; SCV.freed = 0;
	int ret = lbuf_sectionbeg((struct lbuf *) 0, SCI.dir, sec, &row, &off);
	H_ASSERT(ret == 0 && off == 0 && !SCV.bad && SCV.made == 1 && SCV.freed == 1, "lbuf_sectionbeg: the lines after (before) the cursor line are tried one after the other; the motion goes to the start of a line; the pattern is released");
	if (SCV.hit)
		H_ASSERT(row == SCI.r0 + SCI.dir * SCV.exam && 0 <= row && row < SCI.n, "lbuf_sectionbeg: the cursor lands on the nearest matching line in that direction");
	else
		H_ASSERT(row == (SCI.dir > 0 ? SCI.n - 1 : 0), "lbuf_sectionbeg: without a matching line the cursor goes to the last / first line");
#ifdef CANARY
	__CPROVER_assert(0, "canary");
#endif
}
