/* proof unit for lbuf_sectionbeg of /repo/mot.c ([[ ]]) - the real file, included verbatim */
#include "pre.h"
#include "mot.c"
#include "libc.spec.h"
#include "motsc.spec.h"
