/* lbuf_pair: % goes from the first bracket at or after the cursor on its line to the bracket that
 * closes / opens it, counting nested brackets of the same kind (C07) */
int xic;
struct rstr;
struct rstr *rstr_make(char *re, int flg) { return 0; }
void rstr_free(struct rstr *rs) { }
int rstr_find(struct rstr *rs, char *s, int n, int *grps, int flg) { return -1; }
int uc_off(char *s, int off) { return nondet_int(); }
char *uc_next(char *s) { return s; }
char *uc_prev(char *beg, char *s) { return s; }
int uc_slen(char *s) { return nondet_int(); }
int lbuf_len(struct lbuf *lb) { return nondet_int(); }
int uc_kind(char *s) { return nondet_int(); }
int uc_code(char *s) { return nondet_int(); }
int uc_isspace(char *s) { return nondet_int(); }

/* phase 1 walks character offsets o0, o0+1, ... on the cursor line (PI2.rest characters follow the
 * cursor before the line ends); phase 2 walks the buffer's characters in reading order (numbered,
 * see motwl.spec.h) from the bracket found.  The text is arbitrary: the stub answers any byte for the
 * character looked at (consistently per character) and records the scan. */
struct ghost_pr_in { int N, p0, rest, o_arg; } PI2;	/* constants: p0 = number of the cursor character, rest = characters from the cursor to the end of its line */
struct ghost_pr {
	int phase;		/* 0: looking for a bracket on the line, 1: looking for its partner */
	int skip;		/* phase 0: characters passed that are not brackets */
	int idx;		/* the bracket found: index into "()[]{}" */
	int pos;		/* phase 1: number of the character (row, off) stands for */
	int c_key; char c_byte;	/* last character looked at (phase 0: offset, phase 1: number) and the byte answered */
	int exam;		/* phase 1: characters examined after the bracket */
	int dep;		/* nesting depth after those */
	int hit;		/* the partner was examined: depth back to 0 */
	int at_end, bad;
} PR;
static char g_prbuf[2], g_prempty[2];
char *lbuf_get(struct lbuf *lb, int pos) { return g_prbuf; }
static const char pr_pairs[] = "()[]{}";
char *uc_chr(char *s, int off)
{
	if (PR.phase == 0) {
		/* offsets beyond the line read as the empty string */
		if (off - PI2.o_arg >= PI2.rest)
			return g_prempty;
		if (PR.c_key != off) {
			PR.c_key = off;
			PR.c_byte = nondet_char();
			__CPROVER_assume(PR.c_byte != 0);
			if (off != PI2.o_arg + PR.skip)
				PR.bad = 1;	/* a character was skipped or revisited */
			int is = PR.c_byte == '(' ? 0 : PR.c_byte == ')' ? 1 : PR.c_byte == '[' ? 2 : PR.c_byte == ']' ? 3 : PR.c_byte == '{' ? 4 : PR.c_byte == '}' ? 5 : -1;
			if (is < 0)
				PR.skip++;
			else {
				PR.idx = is;
				PR.phase = 1;
				PR.pos = PI2.p0 + PR.skip;
				PR.c_key = PR.pos;
			}
		}
		g_prbuf[0] = PR.c_byte;
		return g_prbuf;
	}
	if (PR.c_key != PR.pos) {
		PR.c_key = PR.pos;
		PR.c_byte = nondet_char();
		__CPROVER_assume(PR.c_byte != 0);
		int dir = (PR.idx & 1) ? -1 : 1;
		if (PR.hit || PR.pos != PI2.p0 + PR.skip + dir * (PR.exam + 1))
			PR.bad = 1;
		PR.exam++;
		if (PR.c_byte == pr_pairs[PR.idx ^ 1])
			PR.dep--;
		if (PR.c_byte == pr_pairs[PR.idx])
			PR.dep++;
		if (PR.dep == 0)
			PR.hit = 1;
	}
	g_prbuf[0] = PR.c_byte;
	return g_prbuf;
}
int lbuf_next_pr_contract(struct lbuf *lb, int dir, int *r, int *o)
__CPROVER_requires(r != 0 && o != 0 && (dir == 1 || dir == -1) && PR.phase == 1 && 0 <= PR.pos && PR.pos < PI2.N)
__CPROVER_assigns(*r, *o, PR.pos, PR.at_end)
__CPROVER_ensures((0 <= __CPROVER_old(PR.pos) + dir && __CPROVER_old(PR.pos) + dir < PI2.N) ?
	(__CPROVER_return_value == 0 && PR.pos == __CPROVER_old(PR.pos) + dir && PR.at_end == __CPROVER_old(PR.at_end)) :
	(__CPROVER_return_value != 0 && PR.pos == __CPROVER_old(PR.pos) && PR.at_end == 1))
;
int lbuf_pair_frame_contract(struct lbuf *lb, int *row, int *off)
__CPROVER_requires(row != 0 && off != 0)
__CPROVER_assigns(*row, *off, PR, __CPROVER_object_whole(g_prbuf))
;
#pragma CPROVER check push
#pragma CPROVER check disable "signed-overflow"
int inv_pair0(int o)
{
	return PR.phase == 0 && !PR.bad && PR.dep == 1 && PR.exam == 0 && !PR.hit && !PR.at_end && 0 <= PR.skip && PR.skip <= PI2.rest && o == PI2.o_arg + PR.skip && (PR.skip == 0 ? PR.c_key == -1 : PR.c_key == o - 1);
}
int inv_pair1(int dep, int pidx)
{
	int dir = (PR.idx & 1) ? -1 : 1;
	return PR.phase == 1 && !PR.bad && !PR.hit && !PR.at_end && pidx == PR.idx && 0 <= pidx && pidx < 6 && dep == PR.dep && dep >= 1 && dep <= PR.exam + 1 && 0 <= PR.skip && PR.skip < PI2.rest &&
		0 <= PR.exam && PR.exam <= PI2.N && 0 <= PR.pos && PR.pos < PI2.N && PR.pos == PI2.p0 + PR.skip + dir * PR.exam && PR.c_key == PR.pos;
}
#pragma CPROVER check pop
void h_lbuf_pair(void)
{
	int row = nondet_int(), off = nondet_int();
	GHOST_INIT();
	PI2.N = nondet_int(); PI2.p0 = nondet_int(); PI2.rest = nondet_int();
	__CPROVER_assume(1 <= PI2.N && PI2.N <= 0x1000000 && 0 <= PI2.p0 && PI2.p0 < PI2.N && 1 <= PI2.rest && PI2.rest <= PI2.N - PI2.p0);
	__CPROVER_assume(0 <= off && off <= 0x1000000);
	PR.phase = 0; PR.skip = 0; PR.idx = -1; PR.pos = -1; PR.c_key = -1; PR.exam = 0; PR.dep = 1; PR.hit = 0; PR.at_end = 0; PR.bad = 0; PI2.o_arg = off;
	g_prempty[0] = 0;
	int row0 = row, off0 = off;
	int ret = lbuf_pair((struct lbuf *) 0, &row, &off);
	H_ASSERT(!PR.bad, "lbuf_pair: characters are looked at one after the other, none skipped, first along the line, then from the bracket in its direction");
	if (PR.phase == 0) {
		H_ASSERT(ret == 1 && PR.skip == PI2.rest && row == row0 && off == off0, "lbuf_pair: no bracket between the cursor and the end of the line - the motion fails and leaves the cursor in place");
	} else if (ret) {
		H_ASSERT(PR.at_end && !PR.hit && row == row0 && off == off0, "lbuf_pair: an unmatched bracket - the motion fails at the end of the buffer and leaves the cursor in place");
	} else {
		int dir = (PR.idx & 1) ? -1 : 1;
		H_ASSERT(PR.hit && PR.pos == PI2.p0 + PR.skip + dir * PR.exam, "lbuf_pair: the cursor lands on the first bracket after (before) the one found at which the nesting of that bracket kind is closed");
	}
#ifdef CANARY
	__CPROVER_assert(0, "canary");
#endif
}
