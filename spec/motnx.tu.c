/* proof unit for the character stepper of /repo/mot.c (lbuf_next, lbuf_lnnext, lbuf_eol) - the real file, included verbatim */
#include "pre.h"
#include "mot.c"
#include "libc.spec.h"
#include "motnx.spec.h"
