/* proof unit for lbuf_paragraphbeg of /repo/mot.c ({ }) - the real file, included verbatim */
#include "pre.h"
#include <string.h>
static int verif_strcmp(const char *a, const char *b);
#define strcmp(a, b) verif_strcmp(a, b)
#include "mot.c"
#include "libc.spec.h"
#include "motpg.spec.h"
