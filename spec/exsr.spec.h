/* ex_search: "/re/" searches forward, "?re?" backward, from the line next to the current one; an
 * empty pattern stands for the pattern used last - in the direction of the delimiter typed (C06, C13) */
int xic, xrow;
static struct lbuf { int d; } g_srlb2;
struct lbuf *ex_lbuf(void) { return &g_srlb2; }
struct ghost_xs_in { int delim, re_null, re_empty, n, make_fail, old_dir; } XSI;	/* constants */
struct ghost_xs { int stored; int cur, exam, hit, bad, made, freed; int want_dir; } XS;
static char g_srpat[2], g_srline[2];
static struct rstr { int d; } g_srre;
static int verif_snprintf4(char *s, unsigned long n, const char *fmt, const char *arg)
{
	if (s == xkwd && arg == g_srpat)
		XS.stored++;
	return 0;
}
char *re_read(char **src)
{
	if (XSI.re_null)
		return 0;
	g_srpat[0] = XSI.re_empty ? 0 : 'p';
	g_srpat[1] = 0;
	return g_srpat;
}
void free(void *p) { }
int lbuf_len(struct lbuf *lb) { return XSI.n; }
char *lbuf_get(struct lbuf *lb, int pos)
{
	if (pos < 0 || pos >= XSI.n)
		return 0;
	XS.cur = pos;
	return g_srline;
}
struct rstr *rstr_make(char *re, int flg)
{
	if (re != xkwd)
		XS.bad = 1;
	XS.made++;
	return XSI.make_fail ? (struct rstr *) 0 : &g_srre;
}
void rstr_free(struct rstr *rs) { XS.freed++; }
int rstr_find(struct rstr *rs, char *s, int n, int *grps, int flg)
{
	/* lines are tried one after the other from the line next to the current one, in the direction of the delimiter */
	if (rs != &g_srre || s != g_srline || XS.hit || XS.cur != xrow + XS.want_dir * (XS.exam + 1))
		XS.bad = 1;
	XS.exam = XS.exam < 0x7ffffff0 ? XS.exam + 1 : XS.exam;
	if (nondet_bool()) {
		XS.hit = 1;
		return 0;
	}
	return -1;
}
int ex_search_frame_contract(char **pat)
__CPROVER_requires(pat != 0 && *pat != 0)
__CPROVER_assigns(XS, xkwddir, __CPROVER_object_whole(xkwd))
;
#pragma CPROVER check push
#pragma CPROVER check disable "signed-overflow"
int inv_exsearch(int row)
{
	return !XS.bad && !XS.hit && XS.made == 1 && XS.freed == 0 && 0 <= XS.exam && XS.exam <= XSI.n && row == xrow + XS.want_dir * (XS.exam + 1);
}
#pragma CPROVER check pop
void h_ex_search(void)
{
	char src[3];
	char *p = src;
	GHOST_INIT();
	XSI.delim = nondet_bool() ? '/' : '?'; XSI.re_null = 0;	/* re_read (unit rset.re_read_bounded) returns a pattern for every non-NUL delimiter */ XSI.re_empty = nondet_bool(); XSI.n = nondet_int(); XSI.make_fail = nondet_bool(); XSI.old_dir = nondet_int();
	__CPROVER_assume(1 <= XSI.n && XSI.n <= 4 && -1 <= XSI.old_dir && XSI.old_dir <= 1);
	xrow = nondet_int();
	__CPROVER_assume(0 <= xrow && xrow < XSI.n);
	src[0] = (char) XSI.delim; src[1] = 0;
	xkwddir = XSI.old_dir;
	XS.stored = 0; XS.cur = -1; XS.exam = 0; XS.hit = 0; XS.bad = 0; XS.made = 0; XS.freed = 0;
	XS.want_dir = XSI.delim == '/' ? 1 : -1;
	int r = ex_search(&p);
	int typed = !XSI.re_null && !XSI.re_empty;
	H_ASSERT(XS.stored == (typed ? 1 : 0), "ex_search: a typed pattern becomes the remembered pattern, an empty one keeps it");
	if (!typed && XSI.old_dir == 0) {
		H_ASSERT(r == -1 && XS.made == 0, "ex_search: an empty pattern with nothing remembered fails");
		return;
	}
	if (XSI.make_fail) {
		H_ASSERT(r == -1, "ex_search: a pattern that does not compile fails");
		return;
	}
	H_ASSERT(!XS.bad && XS.made == 1 && XS.freed == 1, "ex_search: the lines are tried one after the other from the line next to the current one, in the direction of the delimiter typed (/ forward, ? backward) - also when the pattern is empty and the remembered one is used");
	if (XS.hit)
		H_ASSERT(r == xrow + XS.want_dir * XS.exam && 0 <= r && r < XSI.n, "ex_search: the address is the nearest matching line in that direction");
	else
		H_ASSERT(r == -1, "ex_search: no matching line - the address does not resolve (no wrap-around)");
#ifdef CANARY
	__CPROVER_assert(0, "canary");
#endif
}
