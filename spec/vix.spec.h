/* contracts for vc_put (C08: "text that was yanked is exactly what a later put inserts") and vc_repeat (C09) */
static int verif_snprintf(char *s, unsigned long n) { if (n) s[0] = 0; return 0; }
int xrow, xoff, xtop, xrows;

/* ---------------------------------------------------------------- vc_repeat */
struct ghost_rep { int calls, bad; } RP;
void term_push(char *s, int n)
{
	if (s != rep_cmd || n != rep_len)
		RP.bad = 1;
	RP.calls = RP.calls < 0x7ffffff0 ? RP.calls + 1 : RP.calls;
}
void vc_repeat_frame_contract(void)
__CPROVER_assigns(RP)
;
void h_vc_repeat(void)
{
	GHOST_INIT();
	vi_arg1 = nondet_int(); rep_len = nondet_int();
	__CPROVER_assume(0 <= vi_arg1 && vi_arg1 <= 0x7ffffff0 && 0 <= rep_len && rep_len <= 4096);
	RP.calls = 0; RP.bad = 0;
	vc_repeat();
	H_ASSERT(!RP.bad, "vc_repeat: what is pushed back is the recorded last change, all of it");
	H_ASSERT(RP.calls == (vi_arg1 > 1 ? vi_arg1 : 1), "vc_repeat: 'N.' pushes the last change back N times ('.' once)");
#ifdef CANARY
	__CPROVER_assert(0, "canary");
#endif
}

/* ---------------------------------------------------------------- vc_put */
/* texts are identified by pointer; the string buffer is a position discipline: appends are recorded in order */
struct ghost_put_in { char *reg, *line, *pre, *post; int lnmode, has_reg, nlines, ne, reglen_chars, lc; } PI;	/* constants */
struct ghost_put {
	int step;		/* 0: nothing appended; 1: prefix appended; 2: register copies being appended; 3: suffix appended */
	int copies, bad;
	int sub_calls, sub_off;
	int edit_calls, edit_beg, edit_end; char *edit_text;
	int drawfix_calls;
	int newline_edit;
} PV;
static struct sbuf { int d; } g_sb;
static char g_sbtext[2], g_nl[2];
static struct lbuf { int d; } g_lb;
struct lbuf *ex_lbuf(void) { return &g_lb; }
char *reg_get(int c, int *ln)
{
	__CPROVER_assert(c == vi_ybuf && ln != 0, "vc_put: the register named by the prefix is read");
	*ln = PI.lnmode;
	return PI.has_reg ? PI.reg : (char *) 0;
}
struct sbuf *sbuf_make(void) { return &g_sb; }
void sbuf_free(struct sbuf *sb) { }
char *sbuf_buf(struct sbuf *sb) { return g_sbtext; }
void sbuf_str(struct sbuf *sb, char *s)
{
	__CPROVER_assert(sb == &g_sb && s != 0, "sbuf_str: buffer and string");
	if (PI.lnmode) {
		if (s == PI.reg)
			PV.copies++;
		else
			PV.bad = 1;
		return;
	}
	if (s == PI.pre && PV.step == 0)
		PV.step = 1;
	else if (s == PI.reg && (PV.step == 1 || PV.step == 2)) {
		PV.step = 2;
		PV.copies++;
	} else if (s == PI.post && PV.step == 2)
		PV.step = 3;
	else
		PV.bad = 1;
}
int lbuf_len(struct lbuf *lb) { return PI.nlines; }
char *lbuf_get(struct lbuf *lb, int pos)
{
	return pos >= 0 && pos < PI.nlines ? PI.line : (char *) 0;
}
int lbuf_indents(struct lbuf *lb, int r) { return nondet_int(); }
void lbuf_edit(struct lbuf *lb, char *s, int beg, int end)
{
	if (s != g_sbtext) {	/* the "\n" that makes an empty buffer a one-line buffer */
		PV.newline_edit++;
		return;
	}
	PV.edit_calls++;
	PV.edit_text = s; PV.edit_beg = beg; PV.edit_end = end;
}
/* uc units / ren unit: ren_noeol keeps the offset on a real character; uc_sub(s, beg, end) is the text of characters beg..end-1 (end < 0: to the end) */
int ren_noeol(char *s, int o)
{
	return PI.ne;
}
char *uc_sub(char *s, int beg, int end)
{
	PV.sub_calls++;
	if (beg == 0 && end >= 0) {
		PV.sub_off = end;
		return PI.pre;
	}
	if (end < 0 && beg == PV.sub_off)
		return PI.post;
	PV.bad = 1;
	return PI.post;
}
int uc_slen(char *s)
{
	__CPROVER_assert(s == PI.reg, "vc_put: the cursor moves by the number of characters of the register text");
	return PI.reglen_chars;
}
void free(void *p) { }
static int linecount(char *s) { return PI.lc; }
static void vi_drawfix(int r1, int r2, int n, int preview) { PV.drawfix_calls++; }

int vc_put_frame_contract(int cmd)
__CPROVER_assigns(PV, xrow, xoff, __CPROVER_object_whole(vi_msg))
;
void h_vc_put(void)
{
	static char reg[2], line[3], pre[2], post[2];
	int cmd = nondet_bool() ? 'p' : 'P';
	GHOST_INIT();
	reg[0] = nondet_char(); reg[1] = 0;
	line[0] = nondet_char(); line[1] = '\n'; line[2] = 0;
	if (nondet_bool()) { line[0] = '\n'; line[1] = 0; }
	pre[0] = post[0] = 0; pre[1] = post[1] = 0;
	PI.reg = reg; PI.line = line; PI.pre = pre; PI.post = post;
	PI.lnmode = nondet_bool(); PI.has_reg = nondet_bool(); PI.nlines = nondet_int(); PI.ne = nondet_int();
	PI.reglen_chars = nondet_int(); PI.lc = nondet_int();
	vi_arg1 = nondet_int(); vi_ybuf = nondet_int(); xrow = nondet_int(); xoff = nondet_int();
	__CPROVER_assume(0 <= PI.nlines && PI.nlines <= 0x1000000 && 0 <= xrow && (PI.nlines == 0 ? xrow == 0 : xrow < PI.nlines));
	__CPROVER_assume(0 <= vi_arg1 && vi_arg1 <= 0x4000 && 0 <= PI.ne && PI.ne <= 0x100000 && 1 <= PI.reglen_chars && PI.reglen_chars <= 3 && 1 <= PI.lc && PI.lc <= 0x100000);
	PV.step = 0; PV.copies = 0; PV.bad = 0; PV.sub_calls = 0; PV.sub_off = -1; PV.edit_calls = 0; PV.drawfix_calls = 0; PV.newline_edit = 0;
	int row0 = xrow, off0 = xoff;
	int cnt = vi_arg1 > 1 ? vi_arg1 : 1;
	int r = vc_put(cmd);
	if (!PI.has_reg || reg[0] == 0) {
		H_ASSERT(r == 0 && PV.edit_calls == 0 && xrow == row0 && xoff == off0, "vc_put: an empty or unset register changes nothing");
		return;
	}
	H_ASSERT(!PV.bad && PV.copies == cnt, "vc_put: exactly count copies of the register text are inserted, nothing else");
	H_ASSERT(PV.edit_calls == 1 && PV.edit_text == g_sbtext, "vc_put: one edit with the assembled text");
	if (PI.lnmode) {
		/* line-wise: the copies become new lines after (p) or before (P) the cursor line; nothing is replaced */
		H_ASSERT(PV.edit_beg == row0 + (cmd == 'p') && PV.edit_end == PV.edit_beg && xrow == PV.edit_beg, "vc_put: a line-wise register is opened below (p) / above (P) the cursor line, replacing nothing; the cursor goes to the first new line");
	} else {
		/* character-wise: the cursor line is rebuilt as prefix + copies + suffix, split at the cursor character (after it for p, before it for P) */
		int first = PI.nlines == 0 ? '\n' : line[0];	/* an empty buffer is treated as one empty line */
		int at = PI.ne + (first != '\n' && cmd == 'p');
		H_ASSERT(PV.step == 3 && PV.sub_off == at, "vc_put: the line is split after (p) / before (P) the cursor character and the copies go in between");
		H_ASSERT(PV.edit_beg == row0 && PV.edit_end == row0 + 1 && xrow == row0, "vc_put: exactly the cursor line is replaced");
		H_ASSERT(xoff == at + PI.reglen_chars * cnt - 1, "vc_put: the cursor lands on the last inserted character (counted in characters, not bytes)");
	}
#ifdef CANARY
	__CPROVER_assert(0, "canary");
#endif
}

