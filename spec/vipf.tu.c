/* proof unit for vi_yankbuf and vi_prefix of /repo/vi.c (the register and count prefixes of a command).
 * MECHANICAL EXTRACTION (redone on every run by run.py, unit key "extract"): vi.c's preprocessor
 * lines and the verbatim text of the two functions; everything else of vi.c is dropped. */
#include "pre.h"
static int vi_read(void);
static void vi_back(int c);
#include EXTRACT_FILE
#include "libc.spec.h"
#include "vipf.spec.h"
