/* BOUNDED: ren_position_reorder - prefix sums of the cell widths in VISUAL order (C17, C18) */
/* lines of up to RR_MAX characters, every reordering (any permutation handed back by dir_reorder),
 * every width function of (character, column): the character at visual position v starts where the
 * characters at visual positions 0..v-1 end, each width taken for ITS character at ITS start column */
#ifndef RR_MAX
#define RR_MAX 4
#endif
int xorder;
struct ghost_rr_in { int n; int perm[RR_MAX]; int w[RR_MAX]; } RR;	/* constants */
static char g_rrtext[RR_MAX + 1];
char **uc_chop(char *s, int *n)
{
	char **c = malloc((RR_MAX + 1) * sizeof(c[0]));
	int i;
	for (i = 0; i <= RR_MAX; i++)
		c[i] = g_rrtext + i;
	*n = RR.n;
	return c;
}
/* dir_reorder as seen by its caller (C18 units): pos[] becomes a permutation of 0..n-1 (pos[i] = visual position of character i) */
void dir_reorder(char *s, int *pos)
{
	int i;
	for (i = 0; i < RR_MAX; i++)
		if (i < RR.n)
			pos[i] = RR.perm[i];
}
/* the width of character j at column c: any function of both (a tab depends on its column) */
#define RR_W(j, c)	((RR.w[j] + (c)) & 7)
static int ren_cwid(char *s, int pos)
{
	__CPROVER_assert(__CPROVER_same_object(s, g_rrtext) && s >= g_rrtext && s < g_rrtext + RR.n && pos >= 0, "ren_cwid: a character of the line at a column");
	return RR_W(s - g_rrtext, pos);
}
void h_ren_position_reorder_bounded(void)
{
	int i, j, v;
	GHOST_INIT();
	RR.n = nondet_int();
	__CPROVER_assume(0 <= RR.n && RR.n <= RR_MAX);
	for (i = 0; i < RR_MAX; i++) {
		RR.perm[i] = nondet_int();
		RR.w[i] = nondet_int();
		__CPROVER_assume(0 <= RR.w[i] && RR.w[i] <= 8);
		__CPROVER_assume(i >= RR.n || (0 <= RR.perm[i] && RR.perm[i] < RR.n));
		for (j = 0; j < i; j++)
			__CPROVER_assume(i >= RR.n || RR.perm[i] != RR.perm[j]);
	}
	xorder = 1;
	int *pos = ren_position_reorder(g_rrtext);
	/* reference layout: walk the visual positions from left to right */
	int cpos = 0;
	for (v = 0; v < RR_MAX; v++)
		if (v < RR.n)
			for (j = 0; j < RR_MAX; j++)
				if (j < RR.n && RR.perm[j] == v) {
					H_ASSERT(pos[j] == cpos, "ren_position_reorder: each character starts where the characters visually before it end");
					cpos += RR_W(j, cpos);
				}
	H_ASSERT(pos[RR.n] == cpos, "ren_position_reorder: the last entry is the total width");
#ifdef CANARY
	__CPROVER_assert(0, "canary");
#endif
}
