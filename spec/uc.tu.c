/* proof units for /repo/uc.c - the real file, included verbatim */
#include "pre.h"
#include "uc.c"
#include "libc.spec.h"
#include "uc.spec.h"
