/* included by every wrapper TU BEFORE the repository file:
 * the <ctype.h> classification macros of glibc go through a table pointer returned by
 * __ctype_b_loc(); they are re-pointed to a plain table lookup (same "C"-locale table, as data). */
#ifndef VERIF_PRE_H
#define VERIF_PRE_H
#include <ctype.h>
int verif_ctype(int c, int mask);
int verif_tolower(int c);
int verif_toupper(int c);
#undef isalnum
#undef isalpha
#undef isdigit
#undef islower
#undef isupper
#undef isspace
#undef isprint
#undef ispunct
#undef isxdigit
#undef iscntrl
#undef isgraph
#undef isblank
#undef tolower
#undef toupper
#define isalnum(c)	verif_ctype((c), _ISalnum)
#define isalpha(c)	verif_ctype((c), _ISalpha)
#define isdigit(c)	verif_ctype((c), _ISdigit)
#define islower(c)	verif_ctype((c), _ISlower)
#define isupper(c)	verif_ctype((c), _ISupper)
#define isspace(c)	verif_ctype((c), _ISspace)
#define isprint(c)	verif_ctype((c), _ISprint)
#define ispunct(c)	verif_ctype((c), _ISpunct)
#define isxdigit(c)	verif_ctype((c), _ISxdigit)
#define iscntrl(c)	verif_ctype((c), _IScntrl)
#define isgraph(c)	verif_ctype((c), _ISgraph)
#define isblank(c)	verif_ctype((c), _ISblank)
#define tolower(c)	verif_tolower(c)
#define toupper(c)	verif_toupper(c)
#endif

/* harness assertions: in the vacuity run (-DCANARY) every assertion site of the harness becomes a
 * reachability canary that must FAIL, so a contract clause or stub assumption that silently blocks
 * the branch an assertion sits in is reported as "vacuous" instead of letting the assertion pass */
#ifdef CANARY
#define H_ASSERT(c, m) __CPROVER_assert(0, "canary")
#else
#define H_ASSERT(c, m) __CPROVER_assert(c, m)
#endif
