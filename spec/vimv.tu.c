/* proof unit for vi_motion of /repo/vi.c (which scanner a motion key runs, how often, with which arguments).
 * MECHANICAL EXTRACTION (redone on every run by run.py, unit key "extract"): vi.c's preprocessor
 * lines, the declaration lines of vi_arg1/vi_arg2, vi_charlast, vi_charcmd, vi_pcol, vi_soset and
 * the verbatim text of vi_motion; everything else of vi.c is dropped.  Callees are declared here and
 * stubbed in vimv.spec.h; the variadic snprintf is routed to a stub. */
#include "pre.h"
#include <stdio.h>
static int verif_snprintf(char *s, unsigned long n);
#define snprintf(s, n, ...) verif_snprintf(s, n)
static int vi_read(void);
static void vi_back(int c);
static char *vi_char(void);
static int vi_motionln(int *row, int cmd);
static int vi_col2off(struct lbuf *lb, int row, int col);
static int vi_nextoff(struct lbuf *lb, int dir, int *row, int *off);
static int vi_nextcol(struct lbuf *lb, int dir, int *row, int *off);
static int vi_findchar(struct lbuf *lb, char *cs, int cmd, int n, int *row, int *off);
static int vi_search(int cmd, int cnt, int *row, int *off);
static int vi_curword(struct lbuf *lb, char *dst, int len, int row, int off, char *ext);
#include EXTRACT_FILE
#include "libc.spec.h"
#include "vimv.spec.h"
