/* vi_motionln: where the line motions land (C07) */
int xrow, xoff, xtop;
static struct lbuf { int d; } g_mllb;
struct lbuf *ex_lbuf(void) { return &g_mllb; }
struct ghost_ml_in { int n, key, key2, jump_fail, jump_row, rows; } LI;	/* constants */
struct ghost_ml { int reads, backs, back_key, jumps, jump_mark; } LM;
int lbuf_len(struct lbuf *lb) { return LI.n; }
int term_rows(void) { return LI.rows; }
static int vi_read(void)
{
	LM.reads++;
	return LM.reads == 1 ? LI.key : LI.key2;
}
static void vi_back(int c)
{
	LM.backs++;
	LM.back_key = c;
}
int lbuf_jump(struct lbuf *lb, int mark, int *pos, int *off)
{
	LM.jumps++;
	LM.jump_mark = mark;
	if (LI.jump_fail)
		return 1;
	*pos = LI.jump_row;
	*off = 0;
	return 0;
}
#define MINV(a, b) ((a) < (b) ? (a) : (b))
#define MAXV(a, b) ((a) < (b) ? (b) : (a))
void h_vi_motionln(void)
{
	int row = nondet_int(), cmd = nondet_int();
	GHOST_INIT();
	LI.n = nondet_int(); LI.key = nondet_int(); LI.key2 = nondet_int(); LI.jump_fail = nondet_bool(); LI.jump_row = nondet_int();
	vi_arg1 = nondet_int(); vi_arg2 = nondet_int(); xtop = nondet_int(); LI.rows = nondet_int();
	/* a buffer with at least one line, the cursor and the window top on existing lines, a screen of 1..1000 rows */
	__CPROVER_assume(1 <= LI.n && LI.n <= 0x1000000 && 0 <= row && row < LI.n && 0 <= xtop && xtop < LI.n && 1 <= LI.rows && LI.rows <= 1000);
	int rows = xrows;	/* the window height as vi.h defines it */
	/* counts as typed: bounded so that their product fits an int (a count of more than 9999 x 9999 overflows: not decided) */
	__CPROVER_assume(0 <= vi_arg1 && vi_arg1 <= 9999 && 0 <= vi_arg2 && vi_arg2 <= 9999);
	__CPROVER_assume(0 <= LI.jump_row && LI.jump_row < LI.n && 0 <= LI.key && LI.key < 256 && 'a' <= cmd && cmd <= 'z');
	LM.reads = LM.backs = LM.jumps = 0;
	int row0 = row, last = LI.n - 1;
	int cnt = (vi_arg1 ? vi_arg1 : 1) * (vi_arg2 ? vi_arg2 : 1);
	int counted = vi_arg1 || vi_arg2;
	int ret = vi_motionln(&row, cmd);
	int c = LI.key;
	if (c == '\n' || c == '+' || c == 'j')
		H_ASSERT(ret == c && row == MINV(row0 + cnt, last), "vi_motionln: + / RETURN / j move count lines down, stopping at the last line");
	else if (c == '-' || c == 'k')
		H_ASSERT(ret == c && row == MAXV(row0 - cnt, 0), "vi_motionln: - / k move count lines up, stopping at the first line");
	else if (c == '_' || c == cmd)
		H_ASSERT(ret == c && row == MINV(row0 + cnt - 1, last), "vi_motionln: _ and the doubled operator key cover count lines starting at the cursor line");
	else if (c == 'G')
		H_ASSERT(ret == c && row == (counted ? cnt - 1 : last), "vi_motionln: G goes to the last line, count G to line count");
	else if (c == 'H')
		H_ASSERT(ret == c && row == MINV(xtop + cnt - 1, last), "vi_motionln: H goes to the count-th line of the window");
	else if (c == 'L')
		H_ASSERT(ret == c && row == MAXV(0, MINV(xtop + rows - cnt, last)), "vi_motionln: L goes to the count-th line from the bottom of the window");
	else if (c == 'M')
		H_ASSERT(ret == c && row == MINV(xtop + rows / 2, last), "vi_motionln: M goes to the middle line of the window");
	else if (c == '\'') {
		if (LI.key2 <= 0 || LI.jump_fail)
			H_ASSERT(ret == -1 && row == row0, "vi_motionln: no such mark - the motion fails and leaves the line alone");
		else
			H_ASSERT(ret == c && row == LI.jump_row && LM.jump_mark == LI.key2, "vi_motionln: 'x goes to the line of mark x");
	} else if (c == '%' && counted) {
		if (cnt > 100)
			H_ASSERT(ret == -1 && row == row0, "vi_motionln: N% with N > 100 fails");
		else
			H_ASSERT(ret == c && 0 <= row && row <= last, "vi_motionln: N% goes to a line of the buffer");
	} else {
		H_ASSERT(ret == 0 && row == row0 && LM.backs == 1 && LM.back_key == c, "vi_motionln: any other key is not a line motion: it is pushed back and the line is left alone");
	}
	if (ret > 0 && c != 'G')
		H_ASSERT(0 <= row && row <= last, "vi_motionln: the target is an existing line");
#ifdef CANARY
	__CPROVER_assert(0, "canary");
#endif
}
