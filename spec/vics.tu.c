/* proof unit for vi_case of /repo/vi.c (g~ gu gU ~).
 * MECHANICAL EXTRACTION (redone on every run by run.py, unit key "extract"): vi.c's preprocessor
 * lines and the verbatim text of vi_case; everything else of vi.c is dropped. */
#include "pre.h"
static void vi_drawfix(int r1, int r2, int n, int preview);
static char *lbuf_region(struct lbuf *lb, int r1, int o1, int r2, int o2);
#include EXTRACT_FILE
#include "libc.spec.h"
#include "vics.spec.h"
