/* proof units for the command-line tokenizers of /repo/ex.c (ex_loc, ex_cmd, ex_arg).
 * ex.c as a whole keeps several hundred addressable objects alive (the command table references every
 * command), which makes every dereference of a loop-havocked pointer a several-hundred-way case
 * split in CBMC (out of memory).  These units therefore use MECHANICAL EXTRACTION, redone on every
 * run from /repo's working tree by run.py (unit key "extract"): the generated file holds ex.c's
 * preprocessor lines and the verbatim text of the named functions; everything else of ex.c is
 * dropped (no other function, no global).  A function that cannot be found aborts the unit
 * (undecided, exit 2).  strchr on the short constant address-character string is routed to an
 * exact loop-free macro as in ex.tu.c. */
#include "pre.h"
#include <string.h>
static char *verif_strchr(const char *s, int c);
#define strchr(s, c) verif_strchr(s, c)
#include EXTRACT_FILE
#define NO_STUB_MEMCPY
#define NO_STUB_MEMMOVE
#define STRLEN_HOOK
static long strlen_hook(const char *s);
#define STRCHR_EXACT
#include "libc.spec.h"
#include "exparse.spec.h"
