/* proof units for /repo/ex.c - the real file, included verbatim.
 * Two textual interventions (both by #define before the include, nothing is rewritten):
 *  1. the variadic libc entry point open() is routed to a two-argument stub (CBMC's frame
 *     instrumentation does not follow variadic callees);
 *     likewise snprintf/sprintf are routed to stubs that check the destination and forget the text;
 *     and, in units that need exact strchr on a bounded command name, strchr() to an exact loop;
 *  2. lbuf_save() contains `mtime > 0`, an ordered comparison of the ADDRESS of the function
 *     mtime with 0.  That is outside ISO C; every compiler evaluates it to true, CBMC to false.
 *     A function-like macro renames the function (calls and definition) to mtime_fn and leaves the
 *     bare identifier to a constant 1, which reproduces the compiled behaviour. */
#include "pre.h"
#include <fcntl.h>
#include <sys/stat.h>
#include <unistd.h>
static int verif_open(const char *path, int flags);
#define open(path, flags, ...) verif_open(path, flags)
static int verif_snprintf(char *s, unsigned long n);
static int verif_sprintf(char *s);
#include <stdio.h>
#define snprintf(s, n, ...) verif_snprintf(s, n)
#define sprintf(s, ...) verif_sprintf(s)
#ifdef STRCHR_EXACT
#include <string.h>
static char *verif_strchr(const char *s, int c);
#define strchr(s, c) verif_strchr(s, c)
#endif
static const long mtime = 1;
#define mtime(p) mtime_fn(p)
#include "ex.c"
/* fixed-size struct copies in the 16-slot buffer table: CBMC's builtin memcpy/memmove/memset are exact */
#define NO_STUB_MEMCPY
#define NO_STUB_MEMMOVE
#define NO_STUB_STRLEN
#include "libc.spec.h"
#include "ex.spec.h"
