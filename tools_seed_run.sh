#!/bin/sh
# usage: tools_seed_run.sh <seed id> [property ...]   - run the registered checks against a seeded change
# (development aid: applies the patch to a scratch copy of /repo's working tree, never to /repo)
id=$1; shift
d=/verif/seeded/$id
props="$@"; [ -z "$props" ] && props=$(python3 -c "import json;print(json.load(open('$d/meta.json'))['property'])")
s=/dev/shm/seed_$id; rm -rf $s; mkdir -p $s; cp /repo/*.c /repo/*.h $s/
( cd $s && patch -s -p1 < $d/patch.diff ) || { echo "patch failed"; exit 9; }
for p in $props; do
  VERIF_REPO=$s VERIF_EVIDENCE_DIR=/dev/shm/seed_ev python3 /verif/run.py check $p > /dev/shm/seed_$id.$p.log 2>&1
  echo "seed=$id property=$p rc=$? $(grep -c '^VIOLATION' /dev/shm/seed_$id.$p.log) violation line(s): $(grep '^failed obligation' /dev/shm/seed_$id.$p.log | head -3 | cut -c1-200 | tr '\n' ';')"
done
rm -rf $s
