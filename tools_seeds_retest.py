#!/usr/bin/env python3
"""development aid: run the registered units against every seeded change (scratch copies under /dev/shm,
never /repo) and record in seeded/<id>/meta.json which units / properties report it.
usage: tools_seeds_retest.py [seed ids...]"""
import json, os, re, subprocess, sys, shutil, concurrent.futures as cf
V = os.path.dirname(os.path.abspath(__file__))
units = json.load(open(os.path.join(V, "units.json")))["units"]
TU_FILES = {"lbuf": ["lbuf.c"], "ex": ["ex.c"], "uc": ["uc.c"], "ucsh": ["uc.c"], "rstr": ["rstr.c"], "mot": ["mot.c"], "motfc": ["mot.c"], "motnx": ["mot.c"], "motwl": ["mot.c"], "motwb": ["mot.c"], "motwe": ["mot.c"], "motpr": ["mot.c"], "motsc": ["mot.c"], "motin": ["mot.c"], "motpg": ["mot.c"],
            "regex": ["regex.c"], "rxuc": ["regex.c", "uc.c"], "sbuf": ["sbuf.c"], "dir": ["dir.c"], "ren": ["ren.c"], "renro": ["ren.c"], "renpo": ["ren.c"],
            "term": ["term.c"], "reg": ["reg.c"], "cmd": ["cmd.c"], "ledl": ["led.c"], "ledh": ["led.c"], "vix": ["vi.c"], "vixq": ["vi.c"], "virp": ["vi.c"], "viin": ["vi.c"], "vish": ["vi.c"], "vics": ["vi.c"], "vipf": ["vi.c"], "vimo": ["vi.c"], "vidy": ["vi.c"], "viml": ["vi.c"], "vimv": ["vi.c"], "visr": ["vi.c"], "vilp": ["vi.c"], "rset": ["rset.c"], "rsgc": ["rset.c", "regex.c"], "exparse": ["ex.c"], "exexec": ["ex.c"], "exed": ["ex.c"], "exmk": ["ex.c"], "exsr": ["ex.c"]}
def files_of(u):
    return TU_FILES[os.path.basename(u["tu"]).split(".")[0]]
def run_seed(sid):
    d = os.path.join(V, "seeded", sid)
    meta = json.load(open(os.path.join(d, "meta.json")))
    prop = meta["property"]
    patch = open(os.path.join(d, "patch.diff")).read()
    touched = set(re.findall(r"^\+\+\+ b/(\S+)", patch, re.M))
    sel = [u for u in units if prop in u["props"] and touched & set(files_of(u))]
    other = [u for u in units if prop not in u["props"] and touched & set(files_of(u))]
    s = "/dev/shm/seedrt_" + sid
    shutil.rmtree(s, ignore_errors=True)
    os.makedirs(s)
    for f in os.listdir("/repo"):
        if f.endswith((".c", ".h")):
            shutil.copy(os.path.join("/repo", f), s)
    r = subprocess.run(["patch", "-s", "-p1"], input=patch, text=True, cwd=s, capture_output=True)
    res = {"seed": sid, "property": prop, "touched": sorted(touched)}
    if r.returncode != 0:
        res["error"] = "patch failed"
        shutil.rmtree(s, ignore_errors=True)
        return res
    def go(us):
        if not us:
            return {}
        env = dict(os.environ, VERIF_REPO=s, VERIF_JOBS="3")
        p = subprocess.run(["python3", os.path.join(V, "run.py"), "unit"] + [re.escape(u["id"]) for u in us],
                           env=env, capture_output=True, text=True)
        out = {}
        cur = None
        for line in p.stdout.splitlines():
            m = re.match(r"(\S+)\s+(proved|failed|undecided)\s", line)
            if m:
                cur = m.group(1)
                out[cur] = m.group(2)
            # a known-finding variant with OTHER failed obligations than the recorded one is a new violation
            m = re.match(r"\s+KF (\S+) (present|absent) (\S+) \[(.*)\]", line)
            if m and m.group(4).strip() and out.get(cur) == "proved":
                out[cur] = "failed"
        return out
    own = go(sel)
    res["own_units"] = own
    if not any(v == "failed" for v in own.values()):
        res["other_units"] = go(other)
    else:
        res["other_units"] = {}
    shutil.rmtree(s, ignore_errors=True)
    failed_own = sorted(k for k, v in own.items() if v == "failed")
    failed_other = sorted(k for k, v in res["other_units"].items() if v == "failed")
    meta["detected_by"] = failed_own + failed_other
    meta["detected_by_properties"] = sorted(set(p for u in units if u["id"] in meta["detected_by"] for p in u["props"]))
    meta["detected"] = bool(meta["detected_by"])
    meta["undecided_units"] = sorted(k for k, v in {**own, **res["other_units"]}.items() if v == "undecided")
    json.dump(meta, open(os.path.join(d, "meta.json"), "w"), indent=1)
    res["detected_by"] = meta["detected_by"]
    return res
if __name__ == "__main__":
    ids = sys.argv[1:] or sorted(x for x in os.listdir(os.path.join(V, "seeded")) if os.path.isdir(os.path.join(V, "seeded", x)))
    with cf.ThreadPoolExecutor(max_workers=7) as ex:
        for r in ex.map(run_seed, ids):
            print(json.dumps(r), flush=True)
