#!/usr/bin/env python3
"""Runner for the contract-based verification of neatvi with CBMC code contracts.

  run.py check <PROP> [--tier quick|thorough]   decide one property (writes evidence/<PROP>.json)
  run.py unit <UNIT> [...]                      run single proof units (debugging aid)
  run.py all [--tier ..]                        run every unit once, write every evidence file
  run.py replay <path>                          re-run the obligation named in a replay file
  run.py selfcheck                              tool versions, units.json sanity

Exit codes: 0 property held on everything explored; 1 VIOLATION (line printed);
2 undecided (timeout, OOM, tool error, build failure, fingerprint mismatch) - never a VIOLATION.
"""
import sys, os, json, subprocess, time, shutil, tempfile, re, hashlib, concurrent.futures as cf

VERIF = os.path.dirname(os.path.abspath(__file__))
REPO = os.environ.get("VERIF_REPO", "/repo")
JOBS = int(os.environ.get("VERIF_JOBS", "14"))
SEED = int(os.environ.get("VERIF_SEED", "0") or 0)
GUARD = "NEATVI_VERIF"
CHECK_FLAGS = ["--bounds-check", "--pointer-check", "--signed-overflow-check",
               "--div-by-zero-check",
               "--no-malloc-may-fail", "--drop-unused-functions"]
THOROUGH_FLAGS = ["--undefined-shift-check"]
DEFAULT_TIMEOUT = 600
DEFAULT_MEM_KB = 8_000_000


def load_units():
    with open(os.path.join(VERIF, "units.json")) as f:
        d = json.load(f)
    units = d["units"]
    ids = set()
    for u in units:
        assert u["id"] not in ids, "duplicate unit id " + u["id"]
        ids.add(u["id"])
    return d, units


def load_kf():
    p = os.path.join(VERIF, "known_findings.json")
    if not os.path.exists(p):
        return []
    return json.load(open(p))["findings"]


def sh(cmd, timeout=None, mem_kb=None, cwd=None):
    """run cmd (list); returns (rc, stdout, stderr, seconds); rc=-9 timeout"""
    t0 = time.time()
    pre = None
    if mem_kb:
        import resource

        def pre():
            resource.setrlimit(resource.RLIMIT_AS, (mem_kb * 1024, mem_kb * 1024))
            os.setsid()
    try:
        p = subprocess.Popen(cmd, stdout=subprocess.PIPE, stderr=subprocess.PIPE, cwd=cwd,
                             preexec_fn=pre, text=True, errors="replace")
        try:
            out, err = p.communicate(timeout=timeout)
        except subprocess.TimeoutExpired:
            try:
                os.killpg(p.pid, 9) if mem_kb else p.kill()
            except Exception:
                p.kill()
            out, err = p.communicate()
            return -9, out, err, time.time() - t0
        return p.returncode, out, err, time.time() - t0
    except OSError as e:
        return -1, "", str(e), time.time() - t0


class Undecided(Exception):
    pass


def parse_cbmc_json(out):
    """returns (results list or None, status string, messages)"""
    try:
        d = json.loads(out)
    except Exception:
        # truncated output (killed): try to recover nothing
        return None, "unparsable", []
    res, status, msgs = None, None, []
    for e in d:
        if "result" in e:
            res = e["result"]
        elif "cProverStatus" in e:
            status = e["cProverStatus"]
        elif "messageType" in e and e["messageType"] in ("ERROR", "WARNING"):
            msgs.append(e["messageType"] + ": " + e.get("messageText", ""))
    return res, status, msgs


BAD_LOG = re.compile(r"ignoring forall|ignoring exists|Parse Error|invariant violation report|"
                     r"no body for function|recursion.*ignoring", re.I)


def count_loops(gb, functions):
    """number of natural loops per function in a goto binary"""
    rc, out, err, _ = sh(["goto-instrument", "--show-loops", gb], timeout=120)
    counts = {}
    cur = None
    for line in out.splitlines():
        m = re.match(r"^\*\*\*\* (\S+)", line)
        if m:
            cur = m.group(1)
            continue
        m = re.match(r"^(\S+)\.(\d+) ", line.strip()) or re.match(r"^Loop (\S+)\.(\d+):", line.strip())
        if m:
            counts[m.group(1)] = max(counts.get(m.group(1), 0), int(m.group(2)) + 1)
    return counts


def build_unit(u, wd, defs):
    """compile + instrument; returns path of goto binary ready for cbmc, and info"""
    tu = os.path.join(VERIF, u["tu"])
    h = u["harness"]
    a = os.path.join(wd, "a.gb")
    b = os.path.join(wd, "b.gb")
    if u.get("extract"):
        # mechanical extraction (run on every build, from the current working tree): the preprocessor
        # lines and the verbatim text of the named top-level functions of one file (or of several files, one
        # entry each); everything else of those files is dropped.  A function that is not found aborts the unit.
        entries = u["extract"] if isinstance(u["extract"], list) else [u["extract"]]
        parts = []
        for ex in entries:
            src = open(os.path.join(REPO, ex["file"])).read()
            parts.append("/* GENERATED on every run by run.py from %s: preprocessor lines + verbatim text of %s */" % (ex["file"], ", ".join(ex["functions"])))
            lines_all = src.splitlines()
            k = 0
            while k < len(lines_all):
                l = lines_all[k]
                if l.startswith("#"):
                    dup = (len(entries) > 1 and ex is not entries[0] and l.startswith("#define") and
                           any(l.split()[1].split("(")[0] == m for m in ("MIN", "MAX", "LEN")))
                    # a macro continued over several lines is taken whole
                    while True:
                        if not dup:
                            parts.append(lines_all[k])
                        if not lines_all[k].endswith("\\") or k + 1 >= len(lines_all):
                            break
                        k += 1
                k += 1
            for rx in ex.get("lines", []):   # verbatim declaration lines (file-scope variables the functions use); each pattern must fire
                hit = [l for l in src.splitlines() if re.match(rx, l)]
                if not hit:
                    raise Undecided("extraction: no line matches %s in %s" % (rx, ex["file"]))
                parts += hit
            for rx in ex.get("blocks", []):   # verbatim multi-line declarations: from the matching line to the next line that begins with '}'
                lines_ = src.splitlines()
                hit = [k for k, l in enumerate(lines_) if re.match(rx, l)]
                if not hit:
                    raise Undecided("extraction: no block starts with %s in %s" % (rx, ex["file"]))
                for k in hit:
                    e = k
                    while e < len(lines_) and not lines_[e].startswith("}"):
                        e += 1
                    parts += lines_[k:e + 1]
            if ex.get("prototypes"):
                # a prototype for every other static function of the file (their bodies are dropped; the unit's spec header
                # defines the ones it gives a meaning to, the rest have no body: CBMC treats their results as arbitrary)
                for m in re.finditer(r"^(static [A-Za-z_][\w \*]*?\b(\w+)\([^;{]*\))\n\{\n", src, re.M):
                    if m.group(2) not in ex["functions"]:
                        parts.append(m.group(1) + ";")
            for fn in ex["functions"]:
                m = re.search(r"^(?:static )?[A-Za-z_][\w \*]*?\b" + re.escape(fn) + r"\([^;{]*\)\n\{\n.*?^\}\n", src, re.M | re.S)
                if not m:
                    raise Undecided("extraction: function %s not found in %s" % (fn, ex["file"]))
                parts.append(m.group(0))
        gen = os.path.join(wd, "extract.c")
        open(gen, "w").write("\n".join(parts) + "\n")
        defs = list(defs) + ['EXTRACT_FILE="%s"' % gen]
    cmd = ["goto-cc", "-D" + GUARD, "-I" + REPO, "-I" + os.path.join(VERIF, "spec"),
           "--function", h] + ["-D" + d for d in u.get("defines", []) + defs] + [tu, "-o", a]
    rc, out, err, t = sh(cmd, timeout=300)
    if rc != 0:
        raise Undecided("goto-cc failed: " + (err or out)[-800:])
    info = {"build_cmd": " ".join(cmd)}
    loops = u.get("loops")
    need_inst = bool(u.get("enforce") or u.get("enforce_rec") or u.get("replace") or loops)
    if not need_inst:
        return a, info
    cmd = ["goto-instrument"]
    if loops:
        lf = os.path.join(VERIF, loops)
        lj = json.load(open(lf))
        # fingerprint: every function with loop contracts must have exactly as many loops
        want = {}
        for fn in lj["functions"]:
            for name, entries in fn.items():
                want[name] = len(entries)
        have = count_loops(a, list(want))
        declared = u.get("loopcount", {})
        for name, n in want.items():
            exp = declared.get(name, n)
            if name in have and have[name] != exp:
                raise Undecided("loop fingerprint mismatch in %s: %d loops, contracts for %d"
                                % (name, have[name], exp))
        cmd += ["--loop-contracts-file", lf]
        # loop invariants may call pure helper functions (inv_*, dec_ptr, uninterpreted spec functions)
        cmd += ["--disable-loop-contracts-side-effect-check"]
    cmd += ["--no-malloc-may-fail", "--dfcc", h]
    for e in u.get("enforce", []):
        cmd += ["--enforce-contract", e]
    for e in u.get("enforce_rec", []):
        cmd += ["--enforce-contract-rec", e]
    for r in u.get("replace", []):
        cmd += ["--replace-call-with-contract", r]
    if loops:
        cmd += ["--apply-loop-contracts"]
    cmd += u.get("instrument_flags", [])
    cmd += [a, b]
    rc, out, err, t = sh(cmd, timeout=600, mem_kb=DEFAULT_MEM_KB)
    if rc != 0:
        raise Undecided("goto-instrument failed: " + (out + err)[-1200:])
    if BAD_LOG.search(out + err):
        raise Undecided("goto-instrument log: " + BAD_LOG.search(out + err).group(0))
    info["instrument_cmd"] = " ".join(cmd)
    return b, info


def cbmc_flags(u, tier):
    fl = list(CHECK_FLAGS)
    if u.get("assertions_only"):
        # units whose callees have no body (arbitrary results): only the stated clauses are decided, no memory-safety claim
        fl = ["--no-standard-checks", "--no-malloc-may-fail", "--drop-unused-functions"]
    if u.get("no_overflow_check"):
        fl = [f for f in fl if f != "--signed-overflow-check"] + ["--no-signed-overflow-check"]
    if tier == "thorough":
        fl += THOROUGH_FLAGS
    if u.get("unwind") is not None:
        fl += ["--unwind", str(u["unwind"]), "--unwinding-assertions"]
    for us in u.get("unwindset", []):
        fl += ["--unwindset", us]
    if u.get("unwindset") and u.get("unwind") is None:
        fl += ["--unwinding-assertions"]
    solver = u.get("solver", "minisat")
    if solver == "cadical":
        fl += ["--sat-solver", "cadical"]
    elif solver == "z3":
        fl += ["--z3"]
    elif solver == "cvc5":
        fl += ["--cvc5"]
    fl += u.get("flags", [])
    return fl


def solve(gb, u, tier, props=None, trace=False, extra=None):
    fl = cbmc_flags(u, tier) + (extra or [])
    cmd = ["cbmc"] + fl + ["--json-ui"]
    if trace:
        cmd += ["--trace"]
    for p in props or []:
        cmd += ["--property", p]
    cmd += [gb]
    to = u.get("timeout", DEFAULT_TIMEOUT) * (3 if tier == "thorough" else 1)
    rc, out, err, t = sh(cmd, timeout=to, mem_kb=u.get("mem_kb", DEFAULT_MEM_KB))
    if rc == -9:
        raise Undecided("cbmc timeout after %ds" % to)
    res, status, msgs = parse_cbmc_json(out)
    if res is None:
        raise Undecided("cbmc gave no result (rc=%s): %s" % (rc, (err or out)[-600:]))
    bad = [m for m in msgs if BAD_LOG.search(m)]
    if bad:
        raise Undecided("cbmc log: " + bad[0][:300])
    return res, t, " ".join(cmd)


def list_props(gb, u, tier):
    cmd = ["cbmc"] + cbmc_flags(u, tier) + ["--show-properties", "--json-ui", gb]
    rc, out, err, t = sh(cmd, timeout=300, mem_kb=DEFAULT_MEM_KB)
    try:
        d = json.loads(out)
    except Exception:
        raise Undecided("show-properties failed: " + (err or out)[-400:])
    for e in d:
        if "properties" in e:
            return e["properties"]
    raise Undecided("show-properties: no property list")


def group_props(props, u):
    """partition obligations for sliced solving; union is the full list"""
    mode = u.get("slice")
    if not mode:
        return None
    groups = {}
    for p in props:
        name = p["name"]
        fn = p["sourceLocation"].get("function", "?")
        cls = p.get("class", "?")
        if mode == "function":
            key = fn
        elif mode == "class":
            key = fn + ":" + cls
        else:
            key = name
        groups.setdefault(key, []).append(name)
    return groups


def short_prop(r):
    sl = r.get("sourceLocation", {})
    return {"obligation": r.get("property"), "description": r.get("description"),
            "file": sl.get("file"), "line": sl.get("line"), "function": sl.get("function"),
            "class": sl.get("propertyClass")}


def run_variant(u, tier, defs, label):
    """build + solve one variant of a unit; returns dict"""
    wd = tempfile.mkdtemp(prefix="nv_" + re.sub(r"\W", "_", u["id"]) + "_", dir=TMP)
    r = {"unit": u["id"], "variant": label, "defs": defs, "status": "proved", "failed": [],
         "obligations": 0, "discharged": 0, "solver_s": 0.0, "classes": {}}
    try:
        gb, info = build_unit(u, wd, defs)
        r.update(info)
        t0 = time.time()
        props = list_props(gb, u, tier)
        only = u.get("only_properties")
        if only:
            # units whose callees have no body: only the clauses stated in the unit's own harness and stubs (and the
            # unwinding assertions) are decided; obligations that depend on arbitrary callee results are not generated claims
            props = [p for p in props if re.search(only, p["name"])]
            if not props:
                raise Undecided("only_properties matches nothing")
        groups = group_props(props, u)
        results = []
        if only and not groups:
            results, t, cmd = solve(gb, u, tier, props=[p["name"] for p in props])
            want = set(p["name"] for p in props)
            results = [x for x in results if x["property"] in want]
            r["checker_cmd"] = cmd.split(" --property")[0] + " --property <the unit's clauses> " + gb
        elif groups:
            r["sliced"] = {}
            with cf.ThreadPoolExecutor(max_workers=u.get("slice_jobs", 4)) as ex:
                futs = {ex.submit(solve, gb, u, tier, names): k for k, names in groups.items()}
                for f in cf.as_completed(futs):
                    res, t, cmd = f.result()
                    want = set(groups[futs[f]])
                    results += [x for x in res if x["property"] in want]
                    r["sliced"][futs[f]] = round(t, 2)
                    r["checker_cmd"] = cmd.split(" --property")[0] + " --property <group> " + gb
        else:
            results, t, cmd = solve(gb, u, tier)
            r["checker_cmd"] = cmd
        r["solver_s"] = round(time.time() - t0, 2)
        seen = set(x["property"] for x in results)
        missing = [p["name"] for p in props if p["name"] not in seen]
        if missing and groups:
            raise Undecided("sliced solving lost obligations: " + ",".join(missing[:5]))
        r["obligations"] = len(results)
        other = []
        for x in results:
            c = x.get("sourceLocation", {}).get("propertyClass", "?")
            r["classes"][c] = r["classes"].get(c, 0) + 1
            if x["status"] == "SUCCESS":
                r["discharged"] += 1
            elif x["status"] == "FAILURE":
                r["failed"].append(short_prop(x))
            else:
                other.append((x["property"], x["status"]))
        # UNKNOWN/ERROR next to a FAILURE: obligations cut off behind a failed (unwinding) assertion -
        # the unit has failed obligations; on their own they leave the unit undecided
        if other and not r["failed"]:
            raise Undecided("obligation %s has status %s" % other[0])
        r["not_evaluated"] = len(other)
        if True:
            pass
        # census
        if (u.get("enforce") or u.get("enforce_rec")) and not (r["classes"].get("postcondition") or r["classes"].get("assigns")):
            raise Undecided("census: no postcondition / frame obligation generated")
        if u.get("loops") and not u.get("no_loop_census"):
            for c in ("loop_invariant_base", "loop_invariant_step"):
                if not r["classes"].get(c):
                    raise Undecided("census: no %s obligation generated" % c)
        for a in u.get("must_have", []):
            if not any(re.search(a, x["property"]) for x in results):
                raise Undecided("census: expected obligation matching %s" % a)
        if r["failed"]:
            r["status"] = "failed"
            # traces for the first few failures
            for fobl in r["failed"][:3]:
                try:
                    cmd = ["cbmc"] + cbmc_flags(u, tier) + ["--trace", "--property", fobl["obligation"], gb]
                    rc, out, err, t = sh(cmd, timeout=u.get("timeout", DEFAULT_TIMEOUT),
                                         mem_kb=u.get("mem_kb", DEFAULT_MEM_KB))
                    fobl["trace_text"] = filter_trace(out)
                    fobl["inputs"] = trace_inputs(out, u["harness"])
                except Exception as e:
                    fobl["trace_text"] = "trace unavailable: %s" % e
        r["samples"] = [short_prop(x) for x in results
                        if x.get("sourceLocation", {}).get("propertyClass") in
                        ("postcondition", "loop_invariant_step", "assertion", "precondition")
                        and not x["property"].startswith("__CPROVER")][:4]
    except Undecided as e:
        r["status"] = "undecided"
        r["reason"] = str(e)
    finally:
        shutil.rmtree(wd, ignore_errors=True)
    return r


def filter_trace(out):
    keep = []
    for line in out.splitlines():
        if re.match(r"^  \S+=", line):
            if re.search(r"__dfcc|__car|write_set|cprover_contracts|__CPROVER_dead|__CPROVER_malloc|"
                         r"^  (ptr|size|idx|set|__havoc_target)=", line):
                continue
            keep.append(line.split(" (")[0])
        elif line.startswith("Violated property") or line.startswith("  file ") or "FAILURE" in line:
            keep.append(line)
    return "\n".join(keep[-400:])


def trace_inputs(out, harness):
    """last value assigned to each harness-level / in_* variable in a text trace"""
    vals = {}
    infn = None
    for line in out.splitlines():
        m = re.match(r"^State \d+ file \S+ function (\S+) line", line)
        if m:
            infn = m.group(1)
            continue
        m = re.match(r"^  ([A-Za-z_][\w\.\[\]]*)=(.*?)( \([01 ]+\))?$", line)
        if m and (infn == harness or m.group(1).startswith("in_") or m.group(1).startswith("g_")):
            vals[m.group(1)] = m.group(2)
    return vals


def run_canary(u, tier):
    """the harness built with -DCANARY must have a FAILING canary assertion (reachability)"""
    wd = tempfile.mkdtemp(prefix="nvc_", dir=TMP)
    try:
        gb, info = build_unit(u, wd, u.get("kf_exclude_defs", []) + ["CANARY"])
        props = list_props(gb, u, tier)
        can = [p["name"] for p in props if p.get("description") == "canary"]
        if not can:
            return "missing"
        res, t, cmd = solve(gb, u, tier, props=can)
        st = [x["status"] for x in res if x["property"] in can]
        return "reachable" if st and all(s == "FAILURE" for s in st) else "vacuous"
    except Undecided as e:
        return "undecided: " + str(e)[:200]
    finally:
        shutil.rmtree(wd, ignore_errors=True)


def run_unit(u, tier, kfs):
    """returns dict with main variant, canary, known-finding variants"""
    my_kf = [k for k in kfs if k.get("status") == "known" and u["id"] in k.get("units", [])]
    excl = ["KF_EXCLUDE_" + k["id"] for k in my_kf]
    u = dict(u)
    if tier == "thorough" and u.get("thorough"):
        u.update(u["thorough"])       # deeper bounds / larger unwinding for the thorough tier
    u["kf_exclude_defs"] = excl
    out = {"unit": u["id"], "kind": u.get("kind", "proof"), "kf": []}
    main = run_variant(u, tier, excl, "main")
    out["main"] = main
    if main["status"] == "proved" and not u.get("no_canary"):
        c = run_canary(u, tier)
        out["canary"] = c
        if c != "reachable":
            main["status"] = "undecided"
            main["reason"] = "vacuity guard: canary " + c
    for k in my_kf:
        defs = ["KF_ONLY_" + k["id"]] + [e for e in excl if e != "KF_EXCLUDE_" + k["id"]]
        v = run_variant(u, tier, defs, "only:" + k["id"])
        pat = re.compile(k["obligation"])
        hit = [f for f in v["failed"] if pat.search(f["obligation"] or "")]
        other = [f for f in v["failed"] if not pat.search(f["obligation"] or "")]
        out["kf"].append({"id": k["id"], "what": k["what"], "present": bool(hit),
                          "status": v["status"], "other_failures": other,
                          "reason": v.get("reason")})
    return out


def assumptions_scan(units):
    """mechanical list of assumptions in the spec files used by these units"""
    files = set()
    for u in units:
        files.add(os.path.join(VERIF, u["tu"]))
    specdir = os.path.join(VERIF, "spec")
    for f in os.listdir(specdir):
        if f.endswith(".h"):
            files.add(os.path.join(specdir, f))
    found = []
    for f in sorted(files):
        try:
            txt = open(f).read()
        except OSError:
            continue
        # only headers actually included by one of the TUs, or the TUs themselves
        n_assume = len(re.findall(r"__CPROVER_assume\s*\(", txt))
        stubs = re.findall(r"/\*\s*STUB:\s*(.*?)\*/", txt)
        axioms = re.findall(r"/\*\s*AXIOM:\s*(.*?)\*/", txt)
        if n_assume:
            found.append("%s: %d __CPROVER_assume (harness input shaping / environment stubs)"
                         % (os.path.relpath(f, VERIF), n_assume))
        for s in stubs:
            found.append("%s: stub %s" % (os.path.relpath(f, VERIF), s.strip()))
        for s in axioms:
            found.append("%s: axiom %s" % (os.path.relpath(f, VERIF), s.strip()))
    return found


def write_replay(prop, ures, fobl, idx):
    d = os.path.join(VERIF, "out", "replay")
    os.makedirs(d, exist_ok=True)
    name = "%s.%s.%s.json" % (prop, re.sub(r"\W", "_", ures["unit"]), re.sub(r"\W", "_", fobl["obligation"] or "x"))
    p = os.path.join(d, name)
    native = None
    try:
        native = native_replay(ures["unit"], fobl)
    except Exception as e:
        native = {"ran": False, "note": "native replay error: %s" % e}
    with open(p, "w") as f:
        json.dump({"property": prop, "unit": ures["unit"], "obligation": fobl["obligation"],
                   "description": fobl.get("description"), "file": fobl.get("file"),
                   "line": fobl.get("line"), "function": fobl.get("function"),
                   "inputs": fobl.get("inputs", {}), "native_replay": native,
                   "verifier_output": fobl.get("trace_text", "")}, f, indent=1)
    return p, native


def native_replay(unit_id, fobl):
    """instantiate the unit's native template with the counterexample inputs, run under ASan/UBSan"""
    _, units = load_units()
    u = [x for x in units if x["id"] == unit_id][0]
    tpl = u.get("replay")
    if not tpl:
        return {"ran": False, "note": "no native template for this unit"}
    inputs = fobl.get("inputs") or {}
    wd = tempfile.mkdtemp(prefix="nvr_", dir=TMP)
    try:
        with open(os.path.join(wd, "inputs.h"), "w") as f:
            for k, v in inputs.items():
                k2 = re.sub(r"\W", "_", k)
                v2 = v.strip()
                m = re.match(r"^(-?\d+)(u|l|ul|ll|ull)?$", v2)
                if m:
                    f.write("#define IN_%s (%s%s)\n" % (k2, m.group(1), (m.group(2) or "").upper()))
                elif re.match(r"^'.*'$", v2) or re.match(r"^\{.*\}$", v2):
                    f.write("#define IN_%s %s\n" % (k2, v2))
        exe = os.path.join(wd, "replay")
        cmd = ["clang", "-g", "-O0", "-fsanitize=address,undefined", "-fno-sanitize-recover=undefined",
               "-w", "-I" + REPO, "-I" + wd, "-I" + os.path.join(VERIF, "replay"),
               os.path.join(VERIF, tpl), "-o", exe]
        rc, out, err, t = sh(cmd, timeout=120)
        if rc != 0:
            return {"ran": False, "note": "native template did not compile: " + err[-400:]}
        rc, out, err, t = sh([exe], timeout=60)
        return {"ran": True, "reproduced": rc != 0, "exit": rc, "output": (out + err)[-1500:]}
    finally:
        shutil.rmtree(wd, ignore_errors=True)


def check_property(prop, tier, units, meta, kfs, only_units=None, results_cache=None):
    t0 = time.time()
    mine = [u for u in units if prop in u["props"]]
    if tier == "quick":
        mine = [u for u in mine if not u.get("thorough_only")]
    if only_units:
        mine = [u for u in mine if u["id"] in only_units]
    if not mine:
        print("no units for property", prop)
        return 2
    results = {}
    todo = [u for u in mine if not (results_cache and u["id"] in results_cache)]
    with cf.ThreadPoolExecutor(max_workers=JOBS) as ex:
        futs = {ex.submit(run_unit, u, tier, kfs): u for u in todo}
        for f in cf.as_completed(futs):
            u = futs[f]
            try:
                results[u["id"]] = f.result()
            except Exception as e:
                results[u["id"]] = {"unit": u["id"], "kind": u.get("kind", "proof"), "kf": [],
                                    "main": {"unit": u["id"], "status": "undecided", "reason": "runner: %r" % e,
                                             "failed": [], "obligations": 0, "discharged": 0,
                                             "solver_s": 0, "classes": {}}}
            if results_cache is not None:
                results_cache[u["id"]] = results[u["id"]]
    if results_cache:
        for u in mine:
            results.setdefault(u["id"], results_cache[u["id"]])
    return report(prop, tier, mine, results, meta, kfs, time.time() - t0)


def report(prop, tier, mine, results, meta, kfs, wall):
    violations, undecided, known_lines = [], [], []
    obligations = discharged = 0
    b_obl = b_dis = 0
    unit_ev, bounded_ev, samples = [], [], []
    solver_s = 0.0
    cmds = []
    for u in mine:
        r = results[u["id"]]
        m = r["main"]
        kind = u.get("kind", "proof")
        ev = {"unit": u["id"], "kind": kind, "status": m["status"],
              "functions_under_contract": [e.split("/")[0] for e in u.get("enforce", []) + u.get("enforce_rec", [])],
              "functions_verified_inline": u.get("inline", []),
              "callee_contracts_assumed": [e.split("/")[0] for e in u.get("replace", [])],
              "loops": u.get("loops_note", "loop contracts from " + u["loops"] if u.get("loops") else
                             ("unwound to %s with unwinding assertions" % u["unwind"] if u.get("unwind") is not None else "loop-free")),
              "backend": u.get("solver", "minisat (cbmc default SAT)"),
              "obligations": m["obligations"], "discharged": m["discharged"],
              "obligation_classes": m.get("classes", {}), "solver_s": m.get("solver_s"),
              "canary": r.get("canary"), "what": u.get("what", "")}
        if u.get("bound"):
            ev["bound"] = u["bound"]
        solver_s += m.get("solver_s") or 0
        if m.get("checker_cmd"):
            cmds.append(m["checker_cmd"])
        if kind == "bounded":
            b_obl += m["obligations"]
            b_dis += m["discharged"]
            bounded_ev.append(ev)
        else:
            obligations += m["obligations"]
            discharged += m["discharged"]
            unit_ev.append(ev)
        samples += m.get("samples", [])[:2]
        if m["status"] == "undecided":
            undecided.append((u["id"], m.get("reason", "")))
        elif m["status"] == "failed":
            for i, fobl in enumerate(m["failed"]):
                violations.append((r, fobl))
        for k in r.get("kf", []):
            if k["status"] == "undecided":
                undecided.append((u["id"] + "[only:" + k["id"] + "]", k.get("reason") or ""))
            if k["present"]:
                known_lines.append("KNOWN-FINDING: property=%s %s (%s)" % (prop, k["what"], k["id"]))
            for fobl in k["other_failures"]:
                violations.append((r, fobl))
    for line in sorted(set(known_lines)):
        print(line)
    rc = 0
    seen = set()
    nviol = 0
    for r, fobl in violations:
        key = (r["unit"], fobl["obligation"])
        if key in seen:
            continue
        seen.add(key)
        nviol += 1
        if nviol > 12:
            continue
        path, native = write_replay(prop, r, fobl, nviol)
        tail = "" if (native and native.get("ran") and native.get("reproduced")) else " no-failing-input-found"
        print("failed obligation: unit=%s %s line %s (%s): %s" % (
            r["unit"], fobl["obligation"], fobl.get("line"), fobl.get("function"), fobl.get("description")))
        print("VIOLATION property=%s replay=%s%s" % (prop, path, tail))
        rc = 1
    for uid, why in undecided:
        print("UNDECIDED unit=%s %s" % (uid, why.replace("\n", " ")[:400]))
    if rc == 0 and undecided:
        rc = 2
    pm = meta.get("properties", {}).get(prop, {})
    tb = meta.get("trusted_base", [])
    ev = {
        "property_id": prop, "tier": tier, "seed": SEED, "level": "proof",
        "coverage": {
            "obligations": obligations, "discharged": discharged,
            "checker_cmd": (cmds[0] if cmds else "cbmc") + "   # one of %d unit commands; per unit: goto-cc -> goto-instrument --dfcc --enforce-contract/--replace-call-with-contract --apply-loop-contracts -> cbmc" % len(cmds),
            "trusted_base": tb,
            "units": unit_ev, "bounded": bounded_ev,
            "bounded_obligations": b_obl, "bounded_discharged": b_dis,
            "solver_seconds_total": round(solver_s, 1),
            "undecided_units": [{"unit": a, "reason": b[:300]} for a, b in undecided],
            "known_findings_reported": sorted(set(known_lines)),
            "not_decided_clauses": pm.get("not_decided", []),
            "samples": samples[:12] or [{"note": "no obligations"}],
            "explanation": pm.get("explanation", ""),
        },
        "assumptions": assumptions_scan(mine) + pm.get("assumptions", []) + meta.get("assumptions", []),
        "wall_s": round(wall, 1),
        "violations": nviol,
    }
    evdir = os.environ.get("VERIF_EVIDENCE_DIR", os.path.join(VERIF, "evidence"))
    os.makedirs(evdir, exist_ok=True)
    with open(os.path.join(evdir, prop + ".json"), "w") as f:
        json.dump(ev, f, indent=1)
    print("property %s tier=%s: %d units, %d/%d obligations discharged (proof), %d/%d bounded, %d violation(s), %d undecided, %.0fs"
          % (prop, tier, len(mine), discharged, obligations, b_dis, b_obl, nviol, len(undecided), wall))
    return rc


def main():
    global TMP
    args = sys.argv[1:]
    if not args:
        print(__doc__)
        return 2
    tier = os.environ.get("VERIF_TIER", "quick")
    if "--tier" in args:
        i = args.index("--tier")
        tier = args[i + 1]
        del args[i:i + 2]
    base = os.environ.get("VERIF_TMP") or ("/dev/shm" if os.path.isdir("/dev/shm") else "/var/tmp")
    TMP = tempfile.mkdtemp(prefix="neatvi_verif_", dir=base)
    try:
        meta, units = load_units()
        kfs = load_kf()
        cmd = args[0]
        if cmd == "selfcheck":
            for t in ("cbmc", "goto-cc", "goto-instrument"):
                rc, out, err, _ = sh([t, "--version"])
                print(t, out.strip() or err.strip())
                if rc != 0:
                    return 2
            for u in units:
                assert os.path.exists(os.path.join(VERIF, u["tu"])), u["tu"]
                if u.get("loops"):
                    json.load(open(os.path.join(VERIF, u["loops"])))
            print("units:", len(units), "properties:", sorted(set(p for u in units for p in u["props"])))
            return 0
        if cmd == "check":
            return check_property(args[1], tier, units, meta, kfs, only_units=args[2:] or None)
        if cmd == "all":
            cache = {}
            rcs = {}
            props = sorted(set(p for u in units for p in u["props"]))
            for p in props:
                rcs[p] = check_property(p, tier, units, meta, kfs, results_cache=cache)
            print(rcs)
            return max(rcs.values()) if rcs else 2
        if cmd == "unit":
            rc = 0
            sel = [u for u in units if any(re.fullmatch(a, u["id"]) for a in args[1:])]
            with cf.ThreadPoolExecutor(max_workers=JOBS) as ex:
                for r in ex.map(lambda u: run_unit(u, tier, kfs), sel):
                    m = r["main"]
                    print("%-34s %-9s %d/%d %.1fs canary=%s %s" % (r["unit"], m["status"], m["discharged"],
                          m["obligations"], m.get("solver_s") or 0, r.get("canary"), m.get("reason", "")[:600]))
                    for f in m["failed"]:
                        print("   FAILED", f["obligation"], "line", f["line"], f["function"], "-", f["description"])
                        if os.environ.get("VERIF_TRACE"):
                            print(f.get("trace_text", ""))
                    for k in r.get("kf", []):
                        print("   KF", k["id"], "present" if k["present"] else "absent", k["status"],
                              [o["obligation"] for o in k["other_failures"]], k.get("reason") or "")
                    if m["status"] != "proved":
                        rc = 1
            return rc
        if cmd == "replay":
            d = json.load(open(args[1]))
            u = [x for x in units if x["id"] == d["unit"]][0]
            r = run_unit(u, tier, kfs)
            hit = [f for f in r["main"]["failed"] if f["obligation"] == d["obligation"]]
            if hit:
                print("obligation %s of unit %s fails on the current tree" % (d["obligation"], d["unit"]))
                print(hit[0].get("trace_text", "")[-3000:])
                nat = native_replay(d["unit"], hit[0])
                print("native replay:", json.dumps(nat, indent=1))
                return 1
            print("obligation %s of unit %s: %s" % (d["obligation"], d["unit"], r["main"]["status"]))
            return 0 if r["main"]["status"] == "proved" else 2
        print(__doc__)
        return 2
    finally:
        shutil.rmtree(TMP, ignore_errors=True)


if __name__ == "__main__":
    sys.exit(main())
