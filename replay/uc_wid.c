#include "inputs.h"
#ifndef IN_w_0l_
#define IN_w_0l_ 0
#endif
#ifndef IN_w_1l_
#define IN_w_1l_ 0
#endif
#ifndef IN_w_2l_
#define IN_w_2l_ 0
#endif
#ifndef IN_w_3l_
#define IN_w_3l_ 0
#endif
#ifndef IN_w_4l_
#define IN_w_4l_ 0
#endif
#define NONDET_SEQ IN_w_0l_, IN_w_1l_, IN_w_2l_, IN_w_3l_, IN_w_4l_
#include "native_shim.h"
#include "uc.c"
#include "../spec/uc.spec.h"
int main(void) { h_uc_wid(); printf("not reproduced\n"); return 0; }
