/* native replay shim: the SAME harness text that CBMC checks is compiled natively against the real
 * /repo source; nondet_*() hand out the counterexample values in call order, assumptions that the
 * inputs do not meet end the run with exit 0 (not reproduced), a failing assertion prints
 * REPRODUCED and exits 1 */
#include <stdio.h>
#include <stdlib.h>
#ifndef NONDET_SEQ
#define NONDET_SEQ 0
#endif
static long nd_seq[] = { NONDET_SEQ };
static unsigned nd_i;
static long nd_next(void) { return nd_i < sizeof(nd_seq) / sizeof(nd_seq[0]) ? nd_seq[nd_i++] : 0; }
static int nondet_int(void) { return (int) nd_next(); }
static long nondet_long(void) { return nd_next(); }
static char nondet_char(void) { return (char) nd_next(); }
static unsigned char nondet_uchar(void) { return (unsigned char) nd_next(); }
static _Bool nondet_bool(void) { return nd_next() != 0; }
#define __CPROVER_assert(c, m) do { if (!(c)) { fprintf(stderr, "REPRODUCED on the real code: %s\n", m); exit(1); } } while (0)
#define __CPROVER_assume(c) do { if (!(c)) { fprintf(stderr, "inputs do not meet an assumption of the harness: %s\n", #c); exit(0); } } while (0)
#define H_ASSERT(c, m) __CPROVER_assert(c, m)
