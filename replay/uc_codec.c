#include "inputs.h"
#ifndef IN_c
#define IN_c 0
#endif
#define NONDET_SEQ IN_c
#include "native_shim.h"
#include "uc.c"
#include "../spec/uc.spec.h"
int main(void) { h_uc_codec(); printf("not reproduced\n"); return 0; }
