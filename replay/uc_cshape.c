#include "inputs.h"
#ifndef IN_cur
#define IN_cur 0
#endif
#ifndef IN_prev
#define IN_prev 0
#endif
#ifndef IN_next
#define IN_next 0
#endif
#define NONDET_SEQ IN_cur, IN_prev, IN_next
#include "native_shim.h"
#include "uc.c"
#include "../spec/uc.spec.h"
int main(void) { h_uc_cshape(); printf("not reproduced\n"); return 0; }
