#!/usr/bin/env python3
"""regenerate the tables of DESIGN.md section 11 (between the AUTO markers) from units.json,
known_findings.json, seeded/*/meta.json and evidence/*.json"""
import json, os, re
V = os.path.dirname(os.path.abspath(__file__))
U = json.load(open(os.path.join(V, "units.json")))
K = json.load(open(os.path.join(V, "known_findings.json")))["findings"]
out = []
out.append("### 11.5 Defects found by failing contract obligations\n")
out.append("Each was first a failed obligation of a unit whose clause comes from the property statement, then reproduced on the real binary "
           "(sanitizer build or the editor driven like test.sh does), then either repaired by one minimal unguarded `fix:` commit in /repo "
           "(the 60 tests pass with every one of them) or recorded. `fixed` entries suppress nothing: the units below pass on the repaired tree and fail again if the defect returns.\n")
out.append("| id | property | status | /repo commit | unit(s) | what failed |")
out.append("|---|---|---|---|---|---|")
for f in K:
    out.append("| %s | %s | %s | %s | %s | %s |" % (f["id"], f["property"], f["status"], f.get("commit", "-"), ", ".join(f["units"]),
               re.sub(r"^fixed: property=\S+ \S+ ", "", f["what"]).replace("|", "\\|")))
out.append("")
out.append("Candidates from section 7 that did **not** become findings: F5b is F21 (fixed); F12 (`2,1p` accepted as an empty range) was judged "
           "not to contradict any listed property; F8 (`\\<` does not see the left neighbour on rescans), F11 (`ftruncate` result ignored) and F14 "
           "(8-fold nested global) have no unit that decides them in this round - they are *not* listed as known findings (nothing reports them) and the "
           "clauses they would violate are named as not decided in the level notes. Found during the build round and not in section 7: F20, F21, F22 "
           "(`:s` without an argument read past the command line - an everyday command), F23 (`:make` with a long expanded target overran a stack buffer), "
           "F24 (`??` after a forward search searched forward), F25 (`:so #` without an alternate buffer crashed the editor), F6 and F9 confirmed natively.\n")
out.append("### 11.6 Proof units (generated from units.json and the last evidence run)\n")
ev = {}
for fn in sorted(os.listdir(os.path.join(V, "evidence"))):
    try:
        e = json.load(open(os.path.join(V, "evidence", fn)))
    except Exception:
        continue
    c = e.get("coverage", {})
    for u in c.get("units", []) + (c.get("bounded") if isinstance(c.get("bounded"), list) else []):
        if isinstance(u, dict):
            ev[u.get("unit")] = u
out.append("| unit | properties | kind | functions under contract | obligations | solver s | what it decides |")
out.append("|---|---|---|---|---|---|---|")
for u in U["units"]:
    e = ev.get(u["id"], {})
    fns = [x.split("/")[0] for x in u.get("enforce", []) + u.get("enforce_rec", [])] or u.get("inline", []) or ["(harness)"]
    kind = "bounded: " + u["bound"] if u.get("kind") == "bounded" else "proof"
    out.append("| %s | %s | %s | %s | %s | %s | %s |" % (u["id"], " ".join(p for p in u["props"]), kind.replace("|", "\\|"), ", ".join(fns),
               e.get("obligations", "?"), ("%.0f" % e["solver_s"]) if isinstance(e.get("solver_s"), (int, float)) else "?", u["what"].replace("|", "\\|")))
out.append("")
out.append("### 11.7 Seeded changes (written by independent sub-agents from the property text only) and which check reports them\n")
out.append("`detected by` lists the units that report a failed obligation with the change applied to a scratch copy (tools_seeds_retest.py); "
           "an empty cell means no registered check notices the change - the reason is given.\n")
out.append("| seed | property | file / function changed | detected by (units) | properties whose check exits 1 |")
out.append("|---|---|---|---|---|")
sd = os.path.join(V, "seeded")
nd = 0; tot = 0
for sid in sorted(os.listdir(sd)):
    mp = os.path.join(sd, sid, "meta.json")
    if not os.path.exists(mp):
        continue
    m = json.load(open(mp))
    tot += 1
    where = (m.get("needs_to_manifest") or "").split("\n")[0][:110].replace("|", "\\|")
    det = m.get("detected_by")
    if det:
        nd += 1
    out.append("| %s | %s | %s | %s | %s |" % (sid, m["property"], where, ", ".join(det) if det else ("**not detected** - " + m.get("why_not_detected", "no unit covers the changed function")) if det is not None else "not run",
               " ".join(m.get("detected_by_properties", []))))
out.append("")
out.append("%d of %d seeded changes are reported by at least one registered check.\n" % (nd, tot))
M = json.load(open(os.path.join(V, "manifest_meta.json")))
out.append("### 11.8 Per property: what the registered check decides now (generated from manifest_meta.json)\n")
out.append("Where this differs from section 5 (the plan), this list is what holds. 'Not decided' clauses are part of the claim text on purpose: a property is claimed at the level of the clauses its units carry, never wholesale.\n")
props = [json.loads(l) for l in open(os.path.join(V, "properties.jsonl"))]
for pr in props:
    pid = pr["id"]
    if pid in M["claims"]:
        c = M["claims"][pid]
        mine = [u["id"] + (" (bounded)" if u.get("kind") == "bounded" else "") for u in U["units"] if pid in u["props"]] if pid != "C05" else ["every unit"]
        out.append("* **%s - %s.** %s  \n  *Units:* %s.  \n  *Note:* %s" % (pid, pr["title"], c["text"], ", ".join(mine), c["note"]))
    else:
        out.append("* **%s - %s.** *not applicable:* %s" % (pid, pr["title"], M["not_applicable"].get(pid, "no unit")))
out.append("")
txt = "\n".join(out)
p = os.path.join(V, "DESIGN.md")
s = open(p).read()
B, E = "<!-- AUTO-TABLES-BEGIN -->", "<!-- AUTO-TABLES-END -->"
if B in s:
    s = s[:s.index(B)] + B + "\n" + txt + "\n" + E + s[s.index(E) + len(E):]
else:
    s = s.rstrip("\n") + "\n\n" + B + "\n" + txt + "\n" + E + "\n"
open(p, "w").write(s)
print("tables written: %d units, %d findings, %d/%d seeds detected" % (len(U["units"]), len(K), nd, tot))
