#!/usr/bin/env python3
"""regenerate MANIFEST.json from units.json + manifest_meta.json"""
import json, os
V = os.path.dirname(os.path.abspath(__file__))
d = json.load(open(os.path.join(V, "units.json")))
meta = json.load(open(os.path.join(V, "manifest_meta.json")))
props = [json.loads(l) for l in open(os.path.join(V, "properties.jsonl"))]
claimed = sorted(set(p for u in d["units"] for p in u["props"]) & set(meta["claims"].keys()))
checks = []
for pid in claimed:
    c = meta["claims"][pid]
    checks.append({
        "property_id": pid,
        "quick_cmd": "python3 run.py check %s --tier quick" % pid,
        "thorough_cmd": "python3 run.py check %s --tier thorough" % pid,
        "evidence_file": "/verif/evidence/%s.json" % pid,
        "replay_cmd_template": "python3 run.py replay {path}",
        "engine": "cbmc-contracts",
        "level_claimed": {"category": "proof", "text": c["text"], "design_ref": c.get("design_ref", "DESIGN.md section 5 " + pid)},
        "level_note": c["note"],
        "technique": "contract-based deductive verification: CBMC code contracts (goto-instrument --dfcc enforce/replace, loop contracts) on the real C files",
    })
na = [{"property_id": p["id"], "reason": meta["not_applicable"].get(p["id"], "no proof unit passes for this property yet in this round (see DESIGN.md section 5 for the planned contracts)")}
      for p in props if p["id"] not in claimed]
m = {
    "version": 1,
    "setup_cmd": "python3 run.py selfcheck",
    "hooks": {"guard": "NEATVI_VERIF",
              "enable": "goto-cc -DNEATVI_VERIF on the wrapper translation units spec/*.tu.c, which #include the real /repo/*.c verbatim; /repo itself carries no hooks",
              "baseline_off_cmd": "make -C /repo -s clean all && cd /repo && sh test.sh",
              "source_commits": [], "add_only": True},
    "engines": [{"name": "cbmc-contracts", "path": "/verif/run.py",
                 "serves_properties": claimed,
                 "kind_free_text": "goto-cc + goto-instrument --dfcc (function contracts, loop contracts) + cbmc 6.11 SAT back ends, one proof unit per function"}],
    "checks": checks,
    "not_applicable": na,
    "notes": meta.get("notes", ""),
}
json.dump(m, open(os.path.join(V, "MANIFEST.json"), "w"), indent=1)
print("claimed:", claimed, "not claimed:", [x["property_id"] for x in na])
